#!/bin/bash
# usage: dbg.sh <ID> — run the quick check without the failure cap and list the failed obligations once each
cd /verif; GOVC_NOCAP=1 ./check $1 ${2:-quick} 2>&1 | grep -v slow | grep -v '^VIOLATION' | tail -3
for f in replays/$1/*.json; do jq -r '[.obligation, .at, (.answers|tostring), (.clause // "" | .[0:160])] | @tsv' "$f" 2>/dev/null; done | sort -u
