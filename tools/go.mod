module govc

go 1.24.0

require (
	github.com/bitcoin-sv/block-headers-service v0.0.0
	golang.org/x/tools v0.29.0
)

require (
	golang.org/x/mod v0.22.0 // indirect
	golang.org/x/sync v0.11.0 // indirect
)

replace github.com/bitcoin-sv/block-headers-service => /repo
