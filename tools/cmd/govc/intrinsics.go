package main

// Hand-written models of standard-library functions whose meaning is simple and fixed
// (math/big arithmetic).  They are part of the trusted base and listed in the evidence.

import (
	"fmt"
	"math/big"
	"go/types"

	"golang.org/x/tools/go/ssa"
)

type intrinsic interface {
	run(x *Exec, fr *Frame, c *ssa.CallCommon, args []*Sym, reach *Term, st *State) []*Sym
	mod(m *ModSet, c *ssa.CallCommon)
}

type intr struct {
	f      func(x *Exec, fr *Frame, c *ssa.CallCommon, args []*Sym, reach *Term, st *State) []*Sym
	big    bool // modifies BigVal
	allocs bool
}

func (i intr) run(x *Exec, fr *Frame, c *ssa.CallCommon, args []*Sym, reach *Term, st *State) []*Sym {
	return i.f(x, fr, c, args, reach, st)
}
func (i intr) mod(m *ModSet, c *ssa.CallCommon) {
	if i.big {
		m.Big = true
	}
	if i.allocs {
		m.Ctr = true
	}
}

// bridge functions bit-vector -> Int, uninterpreted with syntactic normalisation
func (x *Exec) sInt(t *Term) *Term { // signed value of a 64-bit vector
	x.vc.theories["bridge"] = true
	if t.Lit != nil {
		return mkInt(t.signedVal())
	}
	if t.Zext != nil && t.Zext.W < t.W {
		return x.uInt(t.Zext)
	}
	if t.Sext != nil {
		return x.sInt(t.Sext)
	}
	return app(SInt, fmt.Sprintf("S%d", t.W), t)
}

func (x *Exec) uInt(t *Term) *Term {
	x.vc.theories["bridge"] = true
	if t.Lit != nil {
		return mkInt(t.Lit)
	}
	if t.Zext != nil {
		return x.uInt(t.Zext)
	}
	return app(SInt, fmt.Sprintf("U%d", t.W), t)
}

func (x *Exec) bigGet(st *State, p *Sym) *Term { return mkSelect(x.bigHeap(st), p.term()) }
func (x *Exec) bigSet(st *State, p *Sym, v *Term) {
	x.hp.heapSet(st, bigFamily, mkStore(x.bigHeap(st), p.term(), x.vc.name("big", v)))
}

func bigBin(op string) intr {
	return intr{big: true, f: func(x *Exec, fr *Frame, c *ssa.CallCommon, a []*Sym, reach *Term, st *State) []*Sym {
		for i := 0; i < 3; i++ {
			x.nilCheck(fr, a[i], reach, c.Pos(), "math/big operand")
		}
		x.bigSet(st, a[0], app(SInt, op, x.bigGet(st, a[1]), x.bigGet(st, a[2])))
		return []*Sym{a[0]}
	}}
}

var intrinsics = map[string]intrinsic{
	"math/big.NewInt": intr{allocs: true, big: true, f: func(x *Exec, fr *Frame, c *ssa.CallCommon, a []*Sym, reach *Term, st *State) []*Sym {
		r := x.newRef(st)
		p := scalar(c.Signature().Results().At(0).Type(), r)
		x.bigSet(st, p, x.sInt(a[0].term()))
		return []*Sym{p}
	}},
	"(*math/big.Int).Sign": intr{f: func(x *Exec, fr *Frame, c *ssa.CallCommon, a []*Sym, reach *Term, st *State) []*Sym {
		x.nilCheck(fr, a[0], reach, c.Pos(), "math/big receiver")
		v := x.bigGet(st, a[0])
		r := mkIte(app(SBool, "<", v, mkInt64(0)), mkBV(bigNeg1(), 64), mkIte(mkEq(v, mkInt64(0)), mkBVu(0, 64), mkBVu(1, 64)))
		return []*Sym{scalar(types.Typ[types.Int], x.vc.name("sign", r))}
	}},
	"(*math/big.Int).Cmp": intr{f: func(x *Exec, fr *Frame, c *ssa.CallCommon, a []*Sym, reach *Term, st *State) []*Sym {
		x.nilCheck(fr, a[0], reach, c.Pos(), "math/big receiver")
		x.nilCheck(fr, a[1], reach, c.Pos(), "math/big operand")
		u, v := x.bigGet(st, a[0]), x.bigGet(st, a[1])
		r := mkIte(app(SBool, "<", u, v), mkBV(bigNeg1(), 64), mkIte(mkEq(u, v), mkBVu(0, 64), mkBVu(1, 64)))
		return []*Sym{scalar(types.Typ[types.Int], x.vc.name("cmp", r))}
	}},
	"(*math/big.Int).Add": bigBin("+"),
	"(*math/big.Int).Sub": bigBin("-"),
	"(*math/big.Int).Mul": bigBin("*"),
	"(*math/big.Int).Div": intr{big: true, f: func(x *Exec, fr *Frame, c *ssa.CallCommon, a []*Sym, reach *Term, st *State) []*Sym {
		for i := 0; i < 3; i++ {
			x.nilCheck(fr, a[i], reach, c.Pos(), "math/big operand")
		}
		d := x.bigGet(st, a[2])
		x.vc.oblige("div", fmt.Sprintf("div#%d", x.vc.ord("div")), reach, mkNot(mkEq(d, mkInt64(0))), x.pos(c.Pos()), "big.Int.Div by zero panics")
		// Euclidean division, as SMT-LIB div
		x.bigSet(st, a[0], app(SInt, "div", x.bigGet(st, a[1]), d))
		return []*Sym{a[0]}
	}},
	"(*math/big.Int).Lsh": intr{big: true, f: func(x *Exec, fr *Frame, c *ssa.CallCommon, a []*Sym, reach *Term, st *State) []*Sym {
		x.nilCheck(fr, a[0], reach, c.Pos(), "math/big receiver")
		x.nilCheck(fr, a[1], reach, c.Pos(), "math/big operand")
		x.vc.theories["bigint"] = true
		x.bigSet(st, a[0], app(SInt, "*", x.bigGet(st, a[1]), app(SInt, "pow2", x.uInt(a[2].term()))))
		return []*Sym{a[0]}
	}},
	"(*math/big.Int).Neg": intr{big: true, f: func(x *Exec, fr *Frame, c *ssa.CallCommon, a []*Sym, reach *Term, st *State) []*Sym {
		x.nilCheck(fr, a[0], reach, c.Pos(), "math/big receiver")
		x.nilCheck(fr, a[1], reach, c.Pos(), "math/big operand")
		x.bigSet(st, a[0], app(SInt, "-", x.bigGet(st, a[1])))
		return []*Sym{a[0]}
	}},
	"(*math/big.Int).Set": intr{big: true, f: func(x *Exec, fr *Frame, c *ssa.CallCommon, a []*Sym, reach *Term, st *State) []*Sym {
		x.nilCheck(fr, a[0], reach, c.Pos(), "math/big receiver")
		x.nilCheck(fr, a[1], reach, c.Pos(), "math/big operand")
		x.bigSet(st, a[0], x.bigGet(st, a[1]))
		return []*Sym{a[0]}
	}},
	"(*math/big.Int).SetInt64": intr{big: true, f: func(x *Exec, fr *Frame, c *ssa.CallCommon, a []*Sym, reach *Term, st *State) []*Sym {
		x.nilCheck(fr, a[0], reach, c.Pos(), "math/big receiver")
		x.bigSet(st, a[0], x.sInt(a[1].term()))
		return []*Sym{a[0]}
	}},
	"(*math/big.Int).SetUint64": intr{big: true, f: func(x *Exec, fr *Frame, c *ssa.CallCommon, a []*Sym, reach *Term, st *State) []*Sym {
		x.nilCheck(fr, a[0], reach, c.Pos(), "math/big receiver")
		x.bigSet(st, a[0], x.uInt(a[1].term()))
		return []*Sym{a[0]}
	}},
	"(*math/big.Int).String": intr{f: func(x *Exec, fr *Frame, c *ssa.CallCommon, a []*Sym, reach *Term, st *State) []*Sym {
		x.vc.theories["strings"] = true
		// nil receiver prints "<nil>"
		v := mkIte(mkEq(a[0].term(), mkInt64(0)), x.vc.strLit("<nil>"), app(SStr, "decOf", x.bigGet(st, a[0])))
		return []*Sym{scalar(types.Typ[types.String], x.vc.name("dec", v))}
	}},
	"(*math/big.Int).SetString": intr{big: true, f: func(x *Exec, fr *Frame, c *ssa.CallCommon, a []*Sym, reach *Term, st *State) []*Sym {
		x.nilCheck(fr, a[0], reach, c.Pos(), "math/big receiver")
		x.vc.theories["strings"] = true
		ok := x.vc.fresh("setstring.ok", SBool)
		is10 := mkEq(a[2].term(), mkBVu(10, 64))
		// base 10: succeeds exactly on decimal strings, value undec(s)
		x.vc.assume(reach, mkImp(is10, mkEq(ok, app(SBool, "isDec", a[1].term()))))
		nv := x.vc.fresh("setstring.v", SInt)
		x.vc.assume(reach, mkImp(mkAnd(is10, ok), mkEq(nv, app(SInt, "undec", a[1].term()))))
		// the empty string: SetString fails and leaves 0 (observed behaviour of math/big - the
		// documentation calls the value undefined; listed as an assumption)
		x.vc.assume(reach, mkImp(mkEq(a[1].term(), mkRaw("sempty", SStr)), mkEq(nv, mkInt64(0))))
		addUnique(&x.report.ContractUsed, "assumption: (*big.Int).SetString(\"\") leaves the receiver 0")
		x.bigSet(st, a[0], nv)
		return []*Sym{scalar(a[0].T, mkIte(ok, a[0].term(), mkInt64(0))), scalar(types.Typ[types.Bool], ok)}
	}},
}

func bigNeg1() *big.Int { return big.NewInt(-1) }
