package main

// Terms: SMT-LIB text with a sort and (for literals) a known value, so that
// constant folding can prune branches of unrolled loops.

import (
	"fmt"
	"math/big"
	"strings"
)

type Term struct {
	S    string
	Sort string
	W    int      // bit width if bit-vector
	Lit  *big.Int // literal bit-vector value (unsigned, < 2^W) or Int literal
	BLit int      // 0 = not a bool literal, 1 = true, 2 = false
	Zext *Term    // set when this term is a zero extension of a narrower term
	Sext *Term    // set when this term is a sign extension of a narrower term
}

const (
	SBool = "Bool"
	SInt  = "Int"
	SStr  = "Str"
	STime = "Time"
)

func bvSort(w int) string { return fmt.Sprintf("(_ BitVec %d)", w) }

func arrSort(idx, el string) string { return "(Array " + idx + " " + el + ")" }

var tTrue = &Term{S: "true", Sort: SBool, BLit: 1}
var tFalse = &Term{S: "false", Sort: SBool, BLit: 2}

func mkBool(b bool) *Term {
	if b {
		return tTrue
	}
	return tFalse
}

func mkRaw(s, sort string) *Term {
	t := &Term{S: s, Sort: sort}
	if strings.HasPrefix(sort, "(_ BitVec ") {
		fmt.Sscanf(sort, "(_ BitVec %d)", &t.W)
	}
	return t
}

func mkBV(v *big.Int, w int) *Term {
	m := new(big.Int).Lsh(big.NewInt(1), uint(w))
	x := new(big.Int).Mod(v, m)
	if x.Sign() < 0 {
		x.Add(x, m)
	}
	return &Term{S: fmt.Sprintf("(_ bv%s %d)", x.String(), w), Sort: bvSort(w), W: w, Lit: x}
}

func mkBVu(v uint64, w int) *Term { return mkBV(new(big.Int).SetUint64(v), w) }

func mkInt(v *big.Int) *Term {
	s := v.String()
	if v.Sign() < 0 {
		s = "(- " + new(big.Int).Neg(v).String() + ")"
	}
	return &Term{S: s, Sort: SInt, Lit: new(big.Int).Set(v)}
}
func mkInt64(v int64) *Term { return mkInt(big.NewInt(v)) }

func (t *Term) isBV() bool { return t.W > 0 }

func (t *Term) signedVal() *big.Int {
	if t.Lit == nil {
		return nil
	}
	if t.W == 0 {
		return t.Lit
	}
	half := new(big.Int).Lsh(big.NewInt(1), uint(t.W-1))
	if t.Lit.Cmp(half) >= 0 {
		return new(big.Int).Sub(t.Lit, new(big.Int).Lsh(big.NewInt(1), uint(t.W)))
	}
	return t.Lit
}

func app(sort string, op string, args ...*Term) *Term {
	if len(args) == 0 {
		return mkRaw(op, sort)
	}
	var b strings.Builder
	b.WriteString("(")
	b.WriteString(op)
	for _, a := range args {
		b.WriteString(" ")
		b.WriteString(a.S)
	}
	b.WriteString(")")
	return mkRaw(b.String(), sort)
}

func mkNot(a *Term) *Term {
	switch a.BLit {
	case 1:
		return tFalse
	case 2:
		return tTrue
	}
	if strings.HasPrefix(a.S, "(not ") {
		return mkRaw(a.S[5:len(a.S)-1], SBool)
	}
	return app(SBool, "not", a)
}

func mkAnd(as ...*Term) *Term {
	var xs []*Term
	for _, a := range as {
		if a == nil || a.BLit == 1 {
			continue
		}
		if a.BLit == 2 {
			return tFalse
		}
		xs = append(xs, a)
	}
	if len(xs) == 0 {
		return tTrue
	}
	if len(xs) == 1 {
		return xs[0]
	}
	return app(SBool, "and", xs...)
}

func mkOr(as ...*Term) *Term {
	var xs []*Term
	for _, a := range as {
		if a == nil || a.BLit == 2 {
			continue
		}
		if a.BLit == 1 {
			return tTrue
		}
		xs = append(xs, a)
	}
	if len(xs) == 0 {
		return tFalse
	}
	if len(xs) == 1 {
		return xs[0]
	}
	return app(SBool, "or", xs...)
}

func mkImp(a, b *Term) *Term {
	if a.BLit == 1 {
		return b
	}
	if a.BLit == 2 || b.BLit == 1 {
		return tTrue
	}
	if b.BLit == 2 {
		return mkNot(a)
	}
	return app(SBool, "=>", a, b)
}

func mkEq(a, b *Term) *Term {
	if a.Sort != b.Sort {
		panic(fmt.Sprintf("mkEq: sort mismatch %s : %s  vs  %s : %s", a.S, a.Sort, b.S, b.Sort))
	}
	if a.S == b.S {
		return tTrue
	}
	if a.Lit != nil && b.Lit != nil {
		return mkBool(a.Lit.Cmp(b.Lit) == 0)
	}
	if a.BLit != 0 && b.BLit != 0 {
		return mkBool(a.BLit == b.BLit)
	}
	if a.Sort == SBool {
		if b.BLit == 1 {
			return a
		}
		if b.BLit == 2 {
			return mkNot(a)
		}
		if a.BLit == 1 {
			return b
		}
		if a.BLit == 2 {
			return mkNot(b)
		}
	}
	return app(SBool, "=", a, b)
}

func mkIte(c, a, b *Term) *Term {
	if c.BLit == 1 {
		return a
	}
	if c.BLit == 2 {
		return b
	}
	if a.Sort != b.Sort {
		panic(fmt.Sprintf("mkIte: sort mismatch %s : %s  vs  %s : %s", a.S, a.Sort, b.S, b.Sort))
	}
	if a.S == b.S {
		return a
	}
	if a.Sort == SBool {
		if a.BLit == 1 && b.BLit == 2 {
			return c
		}
		if a.BLit == 2 && b.BLit == 1 {
			return mkNot(c)
		}
	}
	return app(a.Sort, "ite", c, a, b)
}

func mkSelect(arr, idx *Term) *Term {
	// (Array I E) -> E
	el := arrayElemSort(arr.Sort)
	return app(el, "select", arr, idx)
}

func mkStore(arr, idx, v *Term) *Term {
	if arrayElemSort(arr.Sort) != v.Sort {
		panic(fmt.Sprintf("mkStore: elem sort mismatch: array %s, value %s : %s", arr.Sort, v.S, v.Sort))
	}
	return app(arr.Sort, "store", arr, idx, v)
}

// splitSort splits "(Array I E)" into I and E.
func splitArraySort(s string) (string, string) {
	if !strings.HasPrefix(s, "(Array ") {
		panic("not an array sort: " + s)
	}
	body := s[len("(Array ") : len(s)-1]
	// first sort token
	depth := 0
	for i, c := range body {
		switch c {
		case '(':
			depth++
		case ')':
			depth--
		case ' ':
			if depth == 0 {
				return body[:i], body[i+1:]
			}
		}
	}
	panic("bad array sort: " + s)
}
func arrayElemSort(s string) string { _, e := splitArraySort(s); return e }
func arrayIdxSort(s string) string  { i, _ := splitArraySort(s); return i }

// ---- bit-vector operations with folding ----

func mask(w int) *big.Int {
	return new(big.Int).Sub(new(big.Int).Lsh(big.NewInt(1), uint(w)), big.NewInt(1))
}

func bvBin(op string, a, b *Term) *Term {
	if a.W != b.W || a.W == 0 {
		panic(fmt.Sprintf("bvBin %s: width mismatch %s:%s vs %s:%s", op, a.S, a.Sort, b.S, b.Sort))
	}
	w := a.W
	if a.Lit != nil && b.Lit != nil {
		x, y := a.Lit, b.Lit
		r := new(big.Int)
		ok := true
		switch op {
		case "bvadd":
			r.Add(x, y)
		case "bvsub":
			r.Sub(x, y)
		case "bvmul":
			r.Mul(x, y)
		case "bvand":
			r.And(x, y)
		case "bvor":
			r.Or(x, y)
		case "bvxor":
			r.Xor(x, y)
		default:
			ok = false
		}
		if ok {
			return mkBV(r, w)
		}
	}
	// identities
	switch op {
	case "bvadd":
		if b.Lit != nil && b.Lit.Sign() == 0 {
			return a
		}
		if a.Lit != nil && a.Lit.Sign() == 0 {
			return b
		}
	case "bvsub":
		if b.Lit != nil && b.Lit.Sign() == 0 {
			return a
		}
	}
	return app(bvSort(w), op, a, b)
}

func bvCmp(op string, a, b *Term) *Term { // op in bvult bvule bvugt bvuge bvslt bvsle bvsgt bvsge
	if a.W != b.W || a.W == 0 {
		panic(fmt.Sprintf("bvCmp %s: width mismatch %s:%s vs %s:%s", op, a.S, a.Sort, b.S, b.Sort))
	}
	if a.Lit != nil && b.Lit != nil {
		var x, y *big.Int
		if op[2] == 's' {
			x, y = a.signedVal(), b.signedVal()
		} else {
			x, y = a.Lit, b.Lit
		}
		c := x.Cmp(y)
		switch op[3:] {
		case "lt":
			return mkBool(c < 0)
		case "le":
			return mkBool(c <= 0)
		case "gt":
			return mkBool(c > 0)
		case "ge":
			return mkBool(c >= 0)
		}
	}
	return app(SBool, op, a, b)
}

func bvResize(a *Term, to int, signed bool) *Term {
	from := a.W
	if from == 0 {
		panic("bvResize of non-bv " + a.S + " : " + a.Sort)
	}
	if from == to {
		return a
	}
	if a.Lit != nil {
		if signed {
			return mkBV(a.signedVal(), to)
		}
		return mkBV(a.Lit, to)
	}
	if to < from {
		return mkRaw(fmt.Sprintf("((_ extract %d 0) %s)", to-1, a.S), bvSort(to))
	}
	if signed {
		t := mkRaw(fmt.Sprintf("((_ sign_extend %d) %s)", to-from, a.S), bvSort(to))
		t.Sext = a
		return t
	}
	t := mkRaw(fmt.Sprintf("((_ zero_extend %d) %s)", to-from, a.S), bvSort(to))
	t.Zext = a
	if a.Zext != nil {
		t.Zext = a.Zext
	}
	return t
}

func bvExtract(a *Term, hi, lo int) *Term {
	if a.Lit != nil {
		r := new(big.Int).Rsh(a.Lit, uint(lo))
		return mkBV(r, hi-lo+1)
	}
	return mkRaw(fmt.Sprintf("((_ extract %d %d) %s)", hi, lo, a.S), bvSort(hi-lo+1))
}

func bvConcat(a, b *Term) *Term {
	return mkRaw(fmt.Sprintf("(concat %s %s)", a.S, b.S), bvSort(a.W+b.W))
}

// Go shift semantics: count is unsigned (or proven non-negative); count >= width gives 0
// (or sign fill for signed >>).
func bvShift(op string, x, cnt *Term, xSigned bool) *Term {
	w := x.W
	// bring count to width max(w, cnt.W) for comparison
	cw := cnt.W
	if cw < w {
		cnt = bvResize(cnt, w, false)
		cw = w
	}
	big_ := bvCmp("bvuge", cnt, mkBVu(uint64(w), cw))
	sh := bvResize(cnt, w, false)
	if cw > w {
		sh = bvExtract(cnt, w-1, 0)
	}
	var o string
	var over *Term
	switch op {
	case "<<":
		o = "bvshl"
		over = mkBVu(0, w)
	case ">>":
		if xSigned {
			o = "bvashr"
			over = app(bvSort(w), "bvashr", x, mkBVu(uint64(w-1), w))
		} else {
			o = "bvlshr"
			over = mkBVu(0, w)
		}
	}
	if x.Lit != nil && cnt.Lit != nil {
		if big_.BLit == 1 {
			if over.Lit != nil {
				return over
			}
		} else {
			n := uint(cnt.Lit.Uint64())
			switch o {
			case "bvshl":
				return mkBV(new(big.Int).Lsh(x.Lit, n), w)
			case "bvlshr":
				return mkBV(new(big.Int).Rsh(x.Lit, n), w)
			case "bvashr":
				return mkBV(new(big.Int).Rsh(x.signedVal(), n), w)
			}
		}
	}
	return mkIte(big_, over, app(bvSort(w), o, x, sh))
}

func zeroOfSort(s string) *Term {
	switch {
	case s == SBool:
		return tFalse
	case s == SInt:
		return mkInt64(0)
	case s == SStr:
		return mkRaw("sempty", SStr)
	case s == STime:
		return mkRaw("time.zero", STime)
	case strings.HasPrefix(s, "(_ BitVec "):
		var w int
		fmt.Sscanf(s, "(_ BitVec %d)", &w)
		return mkBVu(0, w)
	case s == "Float":
		return mkRaw("float.zero", "Float")
	case strings.HasPrefix(s, "(Array "):
		_, e := splitArraySort(s)
		if e == SStr || e == STime {
			return mkRaw("zarr."+e, s)
		}
		return mkRaw(fmt.Sprintf("((as const %s) %s)", s, zeroOfSort(e).S), s)
	}
	panic("zeroOfSort: " + s)
}

func sanitize(s string) string {
	var b strings.Builder
	for _, c := range s {
		switch {
		case c >= 'a' && c <= 'z', c >= 'A' && c <= 'Z', c >= '0' && c <= '9', c == '_', c == '.', c == '$':
			b.WriteRune(c)
		case c == '*':
			b.WriteString("P")
		case c == '[':
			b.WriteString("L")
		case c == ']':
			b.WriteString("J")
		case c == '/':
			b.WriteString(".")
		default:
			b.WriteString("_")
		}
	}
	return b.String()
}

// elemIndex: position off+i in a backing array; uninterpreted idx for symbolic offsets (triggers).
func elemIndex(off, i *Term) *Term {
	if off.Lit != nil && off.Lit.Sign() == 0 {
		return i
	}
	if off.Lit != nil && i.Lit != nil {
		return bvBin("bvadd", off, i)
	}
	return app(bvSort(64), "idx", off, i)
}
