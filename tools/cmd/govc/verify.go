package main

import (
	"fmt"
	"os"
	"runtime/debug"
	"go/types"
	"sort"
	"strings"

	"golang.org/x/tools/go/ssa"
)

type FuncVC struct {
	Key      string
	VC       *VC
	Report   *FuncReport
	Prelude  string
	Theories []string
}

// verifyFunction generates the obligations of one function under contract.
func verifyFunction(ld *Loaded, sp *Specs, key string) (out *FuncVC) {
	fptrSites = nil
	for pass := 0; ; pass++ {
		fptrNew = false
		out = verifyFunctionOnce(ld, sp, key)
		if !fptrNew || pass >= 4 {
			break
		}
	}
	if fptrNew {
		out.Report.Error = "interior-pointer sites did not reach a fixed point"
	}
	for _, s := range fptrSites {
		addUnique(&out.Report.ContractUsed, fmt.Sprintf("interior pointer site: field at leaf %d of %s (type %s)", s.Off, typeName(s.StructT), typeName(s.T)))
	}
	return out
}

func verifyFunctionOnce(ld *Loaded, sp *Specs, key string) (out *FuncVC) {
	rep := &FuncReport{Key: key}
	vc := newVC(key)
	vc.sp = sp
	out = &FuncVC{Key: key, VC: vc, Report: rep}
	defer func() {
		if r := recover(); r != nil {
			rep.Error = fmt.Sprint(r)
			if os.Getenv("GOVC_DEBUG") != "" {
				fmt.Fprintf(os.Stderr, "panic in %s: %v\n%s\n", key, r, debug.Stack())
			}
		}
		rep.Warnings = vc.warnings
	}()
	ct := sp.Contracts[key]
	if ct == nil {
		panic("no contract for " + key)
	}
	rep.Kind = ct.Kind
	fn := ld.funcs[key]
	if fn == nil {
		panic("function " + key + " not found in the loaded packages")
	}
	if len(fn.Blocks) == 0 {
		panic("function " + key + " has no body")
	}
	// reset per-VC global tables
	nonNil = map[string]bool{}
	viewOf = map[string]*Sym{}
	loopHeadState = map[*LoopInfo]*State{}
	specSigned = map[*Sym]bool{}
	specUnsigned = map[*Sym]bool{}
	recOf = map[*Sym]*RecType{}
	x := &Exec{ld: ld, sp: sp, vc: vc, usedFns: map[string]bool{}, tids: map[string]int{}, contract: ct, callOrd: map[string]int{}, report: rep, topFn: fn, closures: map[string]*closureInfo{}, globals: map[*ssa.Global]*Term{}}
	x.hp = &Heaper{vc: vc, sp: sp}
	x.hp.reify = x.reify
	dualTypes = ld.dualStructTypes()
	rep.Pos = x.pos(fn.Pos())
	vc.theories["base"] = true
	if len(fptrSites) > 0 {
		vc.theories["fptr"] = true
	}
	for _, u := range ct.Uses {
		vc.theories[u] = true
	}
	st := &State{cells: map[*cellID]*Sym{}, heap: map[string]*Term{}, fams: map[string]Family{}, ghost: map[string]*Term{}}
	x.ctr0 = vc.declGlobal("ctr0", SInt)
	vc.assertGlobal("(>= ctr0 0)")
	st.ctr = x.ctr0
	fr := x.newFrame(fn, ct, 0, true)
	fr.params = map[string]*Sym{}
	bindInput := func(name string, t types.Type, v ssa.Value) {
		s := &Sym{T: t}
		for _, l := range leavesOf(t) {
			tn := "in." + sanitize(name) + sanitize(l.Path)
			s.L = append(s.L, vc.declGlobal(tn, l.Sort))
			vc.inputs = append(vc.inputs, InputVar{Name: name + l.Path, Term: tn, Sort: l.Sort, GoT: typeName(t)})
		}
		for _, a := range wellTyped(t, s.L, x.ctr0) {
			vc.assertGlobal(a.S)
		}
		fr.vals[v] = s
		fr.params[name] = s
	}
	for _, p := range fn.Params {
		bindInput(p.Name(), p.Type(), p)
	}
	for _, fv := range fn.FreeVars {
		bindInput(fv.Name(), fv.Type(), fv)
		// a captured variable is referenced through a pointer that is never nil
		if kindOf(fv.Type()) == KPtr {
			vc.assertGlobal("(> " + fr.vals[fv].L[0].S + " 0)")
		}
	}
	if ct.Implements != "" {
		// interface parameter names alias the implementation's parameters (receiver excluded)
		ic := sp.Contracts[ct.Implements]
		for i, n := range ic.Params {
			if i+1 < len(fn.Params) {
				fr.params[n] = fr.params[fn.Params[i+1].Name()]
			}
		}
	}
	fr.entry = st.clone()
	x.entrySt = fr.entry
	env := x.baseEnv(fr, st)
	for _, r := range ct.Requires {
		vc.assume(tTrue, x.evalClause(env, r))
	}
	for _, r := range ct.Derives {
		vc.assume(tTrue, x.evalClause(env, r))
		addUnique(&rep.ContractUsed, "derived fact (justified by the property's lemmas): "+r.Src)
	}
	// vacuity canary: the assumptions at entry must be satisfiable
	vc.obls = append(vc.obls, &Obligation{Name: key + "/vacuity[entry]", Kind: "vacuity", Prefix: len(vc.lines), Reach: tTrue, Goal: tFalse, Func: key, Expect: "sat", Info: "requires and input assumptions are satisfiable"})
	exits := x.runBody(fr, st, tTrue)
	sort.SliceStable(exits, func(i, j int) bool { return exits[i].pos < exits[j].pos })
	rt := fn.Signature.Results()
	var exitReach []*Term
	for k, e := range exits {
		penv := x.baseEnv(fr, e.st)
		penv.old = fr.entry
		penv.locals = nil
		for i := 0; i < rt.Len(); i++ {
			penv.vars[fmt.Sprintf("result%d", i)] = e.res[i]
			if n := rt.At(i).Name(); n != "" && n != "_" {
				penv.vars[n] = e.res[i]
			}
		}
		if rt.Len() == 1 {
			penv.vars["result"] = e.res[0]
		}
		if _, clash := fr.params["err"]; !clash && rt.Len() > 0 && isErrorType(rt.At(rt.Len()-1).Type()) {
			penv.vars["err"] = e.res[rt.Len()-1]
		}
		for j, c := range ct.Ensures {
			if c.CallSite {
				continue
			}
			g := x.evalClause(penv, c)
			vc.oblige("post", fmt.Sprintf("post[%d]@ret%d", j, k), e.reach, g, x.pos(e.pos), c.Src)
		}
		exitReach = append(exitReach, e.reach)
	}
	if len(exits) > 0 {
		// frame: ghost state outside `modifies` is unchanged; heap objects that existed at entry are
		// unchanged except for the designated locations.
		var ins []incoming
		for _, e := range exits {
			ins = append(ins, incoming{cond: e.reach, st: e.st})
		}
		reach, fin := x.merge(ins, "exit")
		if ct.AssumeFrame {
			addUnique(&rep.ContractUsed, "assumption: the frame of "+key+" (only its `modifies` locations change) is assumed, not proved")
		} else {
			x.frameObligations(fr, ct, fin, reach)
		}
		vc.obls = append(vc.obls, &Obligation{Name: key + "/vacuity[exit]", Kind: "vacuity", Prefix: len(vc.lines), Reach: reach, Goal: tFalse, Func: key, Expect: "sat", Info: "some return is reachable under all assumed contracts"})
	} else {
		vc.warn("function has no reachable return")
	}
	for _, o := range vc.obls {
		if o.Expect == "trivial" {
			rep.Trivial++
		}
	}
	rep.Obligations = len(vc.obls)
	var ths []string
	for t := range vc.theories {
		ths = append(ths, t)
	}
	sort.Strings(ths)
	out.Theories = ths
	text, err := sp.theoryText(ths)
	if err != nil {
		panic(err.Error())
	}
	out.Prelude = text
	return out
}

func (x *Exec) frameObligations(fr *Frame, ct *Contract, fin *State, reach *Term) {
	vc := x.vc
	for _, d := range ct.Modifies {
		if d == "everything" {
			return // e.g. a wrapper that invokes an arbitrary callback
		}
	}
	mods := map[string]bool{}
	for _, d := range ct.Modifies {
		if rec, ok := x.sp.Records[d]; ok {
			for _, f := range rec.Fields {
				mods[d+"."+f.Name] = true
			}
		}
		mods[d] = true
	}
	for _, g := range sortedKeys(fin.ghost) {
		if mods[g] {
			continue
		}
		if x.sp.Observers[g] || x.sp.Observers[strings.SplitN(g, ".", 2)[0]] {
			continue
		}
		init := x.hp.ghostGet(fr.entry, g)
		cur := fin.ghost[g]
		if cur.S == init.S {
			continue
		}
		vc.oblige("frame", "frame[ghost "+g+"]", reach, mkEq(cur, init), x.pos(fr.fn.Pos()), "ghost "+g+" is not in modifies")
	}
	// heap designators of the top-level contract
	var names []string
	var typs []types.Type
	for _, p := range fr.fn.Params {
		names = append(names, p.Name())
		typs = append(typs, p.Type())
	}
	type excl struct {
		ref *Term
	}
	excluded := map[string][]*Term{} // family -> refs that may change
	wholeFam := map[string]bool{}
	for _, d := range ct.Modifies {
		if mods[d] && (x.sp.Records[d] != nil || x.isGhost(d)) {
			continue
		}
		if fs := x.fieldofFamilies(d); fs != nil {
			for _, f := range fs {
				wholeFam[f.Name] = true
			}
			continue
		}
		if strings.HasPrefix(d, "family(") {
			wholeFam[strings.TrimSuffix(strings.TrimPrefix(d, "family("), ")")] = true
			continue
		}
		if strings.HasPrefix(d, "mapof(") {
			ref, mt := x.mapofRef(d, fr.params, fr.entry)
			dom, val, ln := x.mapFams(mt)
			for _, f := range append(append(append([]Family{}, dom...), val...), ln) {
				excluded[f.Name] = append(excluded[f.Name], ref)
			}
			continue
		}
		fams, big := x.designatorFamilies(d, names, typs)
		var pname string
		switch {
		case reAsPtr.MatchString(d):
			pname = reAsPtr.FindStringSubmatch(d)[1]
		case strings.HasPrefix(d, "bigval("):
			pname = d[7 : len(d)-1]
		case strings.HasPrefix(d, "*"):
			pname = d[1:]
		case strings.HasPrefix(d, "elems("):
			pname = d[6 : len(d)-1]
		default:
			pname = strings.SplitN(d, ".", 2)[0]
		}
		p := fr.params[pname]
		ref := p.L[0]
		if big {
			excluded[bigFamily.Name] = append(excluded[bigFamily.Name], ref)
		}
		for _, f := range fams {
			if f.Root == RElem && !strings.HasPrefix(d, "elems(") {
				// the designated struct may be a slice element: its backing array is excluded
				x.vc.theories["eref"] = true
				excluded[f.Name] = append(excluded[f.Name], app(SInt, "eArr", ref))
				continue
			}
			excluded[f.Name] = append(excluded[f.Name], ref)
		}
	}
	for _, k := range sortedKeys(fin.heap) {
		if wholeFam[k] {
			continue
		}
		cur := fin.heap[k]
		f, ok := fin.fams[k]
		if !ok {
			f = bigFamily
		}
		init := x.hp.heapGet(fr.entry, f)
		if cur.Sort == "" || init.Sort == "" {
			panic("frame: family " + k + " has no sort (cur=" + cur.S + ", init=" + init.S + ")")
		}
		if cur.S == init.S {
			continue
		}
		r := vc.fresh("frame.r", SInt)
		conds := []*Term{app(SBool, "<=", r, x.ctr0), mkNot(mkEq(r, mkInt64(0)))}
		for _, e := range excluded[k] {
			conds = append(conds, mkNot(mkEq(r, e)))
		}
		goal := mkImp(mkAnd(conds...), mkEq(mkSelect(cur, r), mkSelect(init, r)))
		vc.oblige("frame", "frame[heap "+k+"]", reach, goal, x.pos(fr.fn.Pos()), "objects existing at entry keep "+k+" (except modifies)")
	}
}

func (x *Exec) isGhost(n string) bool {
	for _, g := range x.sp.Ghosts {
		if g.Name == n {
			return true
		}
	}
	return false
}
