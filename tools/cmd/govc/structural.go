package main

// Structural (solver-free) obligations over the SSA: provenance of gin router groups, i.e. which
// routes are registered on the authenticated API group and which are not (C09).

import (
	"fmt"
	"go/constant"
	"go/types"
	"sort"
	"strings"

	"golang.org/x/tools/go/ssa"
)

type StructResult struct {
	Name   string
	OK     bool
	Detail string
}

var routeVerbs = map[string]bool{"GET": true, "POST": true, "PUT": true, "DELETE": true, "PATCH": true, "HEAD": true, "OPTIONS": true, "Any": true, "Handle": true, "Match": true, "Static": true, "StaticFS": true, "StaticFile": true, "Group": true, "Use": true}

type prov struct {
	kind  string // param, group, freevar, field, unknown
	param string
	base  *prov  // for group: the receiver's provenance
	path  string // for group: literal path
	call  *ssa.Call
}

func (p *prov) root() *prov {
	for p.kind == "group" && p.base != nil {
		p = p.base
	}
	return p
}

// singleStore: the unique value stored into a local cell, if any.
func singleStore(a *ssa.Alloc) ssa.Value {
	var v ssa.Value
	n := 0
	for _, r := range *a.Referrers() {
		if st, ok := r.(*ssa.Store); ok && st.Addr == ssa.Value(a) {
			v = st.Val
			n++
		}
	}
	if n == 1 {
		return v
	}
	return nil
}

func stringConst(v ssa.Value) (string, bool) {
	if c, ok := v.(*ssa.Const); ok && c.Value != nil && c.Value.Kind() == constant.String {
		return constant.StringVal(c.Value), true
	}
	return "", false
}

func isGinRouterMethod(c *ssa.CallCommon) (string, bool) {
	fn := c.StaticCallee()
	if fn == nil || fn.Signature.Recv() == nil {
		return "", false
	}
	rt := fn.Signature.Recv().Type().String()
	if rt != "*github.com/gin-gonic/gin.RouterGroup" && rt != "*github.com/gin-gonic/gin.Engine" {
		return "", false
	}
	if !routeVerbs[fn.Name()] {
		return "", false
	}
	return fn.Name(), true
}

func provenance(v ssa.Value, depth int) *prov {
	if depth > 20 {
		return &prov{kind: "unknown"}
	}
	switch x := v.(type) {
	case *ssa.Parameter:
		return &prov{kind: "param", param: x.Name()}
	case *ssa.FreeVar:
		return &prov{kind: "freevar", param: x.Name()}
	case *ssa.UnOp:
		// load
		if a, ok := x.X.(*ssa.Alloc); ok {
			if sv := singleStore(a); sv != nil {
				return provenance(sv, depth+1)
			}
			return &prov{kind: "unknown"}
		}
		return provenance(x.X, depth+1)
	case *ssa.FieldAddr:
		// &engine.RouterGroup: same router as the engine
		return provenance(x.X, depth+1)
	case *ssa.Call:
		if name, ok := isGinRouterMethod(x.Common()); ok && name == "Group" {
			p := &prov{kind: "group", base: provenance(x.Common().Args[0], depth+1), call: x}
			if s, ok := stringConst(x.Common().Args[1]); ok {
				p.path = s
			} else if u, ok := x.Common().Args[1].(*ssa.UnOp); ok {
				if a, ok := u.X.(*ssa.Alloc); ok {
					if sv := singleStore(a); sv != nil {
						if s, ok := stringConst(sv); ok {
							p.path = s
						}
					}
				}
			}
			return p
		}
	case *ssa.ChangeType, *ssa.ChangeInterface:
	}
	return &prov{kind: "unknown"}
}

// structuralRoutes checks the route table provenance rules of C09.
func structuralRoutes(ld *Loaded) []StructResult {
	var out []StructResult
	add := func(name string, ok bool, detail string) {
		out = append(out, StructResult{Name: name, OK: ok, Detail: detail})
	}
	// allow-list of unauthenticated registrations: function -> verb path
	allowed := map[string][]string{
		"transports/http/endpoints/status.NewHandler$1":                {"GET status"},
		"transports/http/endpoints/swagger.NewHandler$1":               {"GET /swagger/*any"},
		"transports/http/endpoints/api/profile.NewHandler$1":           {"Group /pprof/debug/", "GET ", "GET cmdline", "GET profile", "GET symbol", "GET trace", "GET allocs", "GET block", "GET goroutine", "GET heap", "GET mutex", "GET threadcreate"},
		"(*transports/websocket.server).SetupEntrypoint":               {"GET /connection/websocket"},
		"transports/http/endpoints.SetupRoutes$1":                      {"Group ", "Group /api/v1"},
		"metrics.EnableMetrics$1":                                      {"Group /metrics", "GET "},
		"metrics.(*Metrics).registerMetricsEndpoint":                   {"Group /metrics", "GET "},
		"metrics.Register":                                             {"Group /metrics", "GET "},
	}
	keys := make([]string, 0, len(ld.funcs))
	for k := range ld.funcs {
		keys = append(keys, k)
	}
	sort.Strings(keys)
	apiImpl := 0
	for _, key := range keys {
		fn := ld.funcs[key]
		if fn.Pkg == nil && fn.Parent() == nil {
			continue
		}
		pkgPath := ""
		if fn.Pkg != nil {
			pkgPath = fn.Pkg.Pkg.Path()
		} else if fn.Parent() != nil && fn.Parent().Pkg != nil {
			pkgPath = fn.Parent().Pkg.Pkg.Path()
		}
		if !strings.HasPrefix(pkgPath, strings.TrimSuffix(modPrefix, "/")) || strings.Contains(pkgPath, "/internal/tests") || strings.Contains(pkgPath, "/examples") {
			continue
		}
		isAPI := fn.Name() == "RegisterAPIEndpoints" && fn.Signature.Recv() != nil && len(fn.Params) >= 2
		var regs []string
		for _, b := range fn.Blocks {
			for _, in := range b.Instrs {
				call, ok := in.(*ssa.Call)
				if !ok {
					continue
				}
				verb, ok := isGinRouterMethod(call.Common())
				if !ok {
					continue
				}
				p := provenance(call.Common().Args[0], 0)
				path := "?"
				if len(call.Common().Args) > 1 {
					if s, ok := stringConst(call.Common().Args[1]); ok {
						path = s
					} else if verb == "Group" {
						if pp := provenance(call, 0); pp.kind == "group" {
							path = pp.path
						}
					}
				}
				desc := verb + " " + path
				if verb == "Use" && !isAPI {
					continue // middleware, not a route
				}
				if isAPI {
					r := p.root()
					if !(r.kind == "param" && r.param == fn.Params[1].Name()) {
						add("routes/api-receiver["+key+"]", false, fmt.Sprintf("%s at %s is registered on a router that does not derive from the authenticated group parameter", desc, ld.fset.Position(call.Pos())))
					}
					continue
				}
				regs = append(regs, desc)
			}
		}
		if isAPI {
			apiImpl++
			add("routes/api-receiver["+key+"]", true, "every route of this API registrar hangs off the group it is given")
			continue
		}
		if len(regs) == 0 {
			continue
		}
		al, ok := allowed[key]
		if !ok {
			add("routes/unauthenticated["+key+"]", false, fmt.Sprintf("route registration outside the authenticated API group in a function that is not on the allow-list: %v", regs))
			continue
		}
		sort.Strings(regs)
		exp := append([]string{}, al...)
		sort.Strings(exp)
		if strings.Join(regs, "|") != strings.Join(exp, "|") {
			add("routes/unauthenticated["+key+"]", false, fmt.Sprintf("unauthenticated registrations changed: have %v, allowed %v", regs, exp))
		} else {
			add("routes/unauthenticated["+key+"]", true, fmt.Sprintf("registers exactly %v", regs))
		}
	}
	if apiImpl == 0 {
		add("routes/api-registrars", false, "no RegisterAPIEndpoints implementation found")
	}
	// SetupRoutes$1: every RegisterAPIEndpoints call gets engine.Group(prefix, apiMiddlewares...)
	if fn := ld.funcs["transports/http/endpoints.SetupRoutes$1"]; fn != nil {
		okAll, found := true, 0
		detail := ""
		for _, b := range fn.Blocks {
			for _, in := range b.Instrs {
				call, ok := in.(*ssa.Call)
				if !ok || !call.Common().IsInvoke() || call.Common().Method.Name() != "RegisterAPIEndpoints" {
					continue
				}
				found++
				p := provenance(call.Common().Args[0], 0)
				if p.kind != "group" || p.call == nil {
					okAll = false
					detail = "RegisterAPIEndpoints is not given a group created by engine.Group"
					continue
				}
				// the variadic middleware argument must be the captured apiMiddlewares
				args := p.call.Common().Args
				mw := provenance(args[len(args)-1], 0)
				if !(mw.kind == "freevar" && mw.param == "apiMiddlewares") {
					okAll = false
					detail = "the API group is not created with the authentication middlewares"
				}
				if p.path != "/api/v1" {
					okAll = false
					detail = "the API group prefix changed: " + p.path
				}
			}
		}
		if found == 0 {
			okAll, detail = false, "no RegisterAPIEndpoints call in SetupRoutes$1"
		}
		if okAll {
			detail = "every API registrar receives engine.Group(\"/api/v1\", apiMiddlewares...)"
		}
		add("routes/api-group-authenticated", okAll, detail)
	} else {
		add("routes/api-group-authenticated", false, "SetupRoutes$1 not found")
	}
	// SetupRoutes: apiMiddlewares := toHandlers(auth.NewMiddleware(s, cfg))
	if fn := ld.funcs["transports/http/endpoints.SetupRoutes"]; fn != nil {
		ok := false
		for _, b := range fn.Blocks {
			for _, in := range b.Instrs {
				st, isSt := in.(*ssa.Store)
				if !isSt {
					continue
				}
				a, isA := st.Addr.(*ssa.Alloc)
				if !isA || a.Comment != "apiMiddlewares" {
					continue
				}
				if c, isC := st.Val.(*ssa.Call); isC && c.Common().StaticCallee() != nil && c.Common().StaticCallee().Name() == "toHandlers" {
					// its variadic argument holds auth.NewMiddleware(...)
					for _, bb := range fn.Blocks {
						for _, ii := range bb.Instrs {
							if cc, isCC := ii.(*ssa.Call); isCC && cc.Common().StaticCallee() != nil && fnKeyOf(cc.Common().StaticCallee()) == "transports/http/auth.NewMiddleware" {
								ok = true
							}
						}
					}
				}
			}
		}
		add("routes/middleware-is-auth", ok, "apiMiddlewares = toHandlers(auth.NewMiddleware(s, cfg))")
	}
	// toHandlers: result = [m.ApplyToAPI for m in middlewares]
	if fn := ld.funcs["transports/http/endpoints.toHandlers"]; fn != nil {
		bound := 0
		for _, b := range fn.Blocks {
			for _, in := range b.Instrs {
				if mc, ok := in.(*ssa.MakeClosure); ok {
					if f, ok := mc.Fn.(*ssa.Function); ok && strings.Contains(f.Name(), "ApplyToAPI") {
						bound++
					}
				}
			}
		}
		add("routes/toHandlers", bound == 1, "toHandlers appends the bound method m.ApplyToAPI of each middleware")
	}
	// access: POST and DELETE are wrapped by auth.RequireAdmin(..., cfg.UseAuth)
	if fn := ld.funcs["(*transports/http/endpoints/api/access.handler).RegisterAPIEndpoints"]; fn != nil {
		okAll := true
		n := 0
		for _, b := range fn.Blocks {
			for _, in := range b.Instrs {
				call, ok := in.(*ssa.Call)
				if !ok {
					continue
				}
				verb, ok := isGinRouterMethod(call.Common())
				if !ok || (verb != "POST" && verb != "DELETE" && verb != "PUT" && verb != "PATCH") {
					continue
				}
				n++
				// handlers are packed into a variadic slice; find a RequireAdmin call feeding it
				wrapped := false
				for _, bb := range fn.Blocks {
					for _, ii := range bb.Instrs {
						if cc, isCC := ii.(*ssa.Call); isCC && cc.Common().StaticCallee() != nil && fnKeyOf(cc.Common().StaticCallee()) == "transports/http/auth.RequireAdmin" {
							// second argument must be cfg.UseAuth
							if u, ok := cc.Common().Args[1].(*ssa.UnOp); ok {
								if fa, ok := u.X.(*ssa.FieldAddr); ok {
									stT := fa.X.Type().Underlying().(*types.Pointer).Elem().Underlying().(*types.Struct)
									if stT.Field(fa.Field).Name() == "UseAuth" {
										wrapped = true
									}
								}
							}
						}
					}
				}
				if !wrapped {
					okAll = false
				}
			}
		}
		requireAdminCalls := 0
		for _, b := range fn.Blocks {
			for _, in := range b.Instrs {
				if cc, ok := in.(*ssa.Call); ok && cc.Common().StaticCallee() != nil && fnKeyOf(cc.Common().StaticCallee()) == "transports/http/auth.RequireAdmin" {
					requireAdminCalls++
				}
			}
		}
		add("routes/access-admin-wrapped", okAll && n > 0 && requireAdminCalls == n, fmt.Sprintf("%d mutating /access routes, %d wrapped by auth.RequireAdmin(handler, cfg.UseAuth)", n, requireAdminCalls))
	}
	return out
}
