package main

import (
	"fmt"
	"regexp"
	"go/token"
	"go/types"
	"strings"

	"golang.org/x/tools/go/ssa"
)

func fnKeyOf(f *ssa.Function) string {
	return strings.ReplaceAll(f.String(), modPrefix, "")
}

func ifaceKeyOf(m *types.Func) string {
	sig := m.Type().(*types.Signature)
	recv := sig.Recv().Type()
	return strings.ReplaceAll(typeName(recv), modPrefix, "") + "." + m.Name()
}

func shortName(key string) string {
	if i := strings.LastIndex(key, "."); i >= 0 {
		return key[i+1:]
	}
	return key
}

func (x *Exec) isPure(key, pkgPath string) bool {
	for _, p := range x.sp.Pure {
		if p == key || p == pkgPath || (strings.HasSuffix(p, "/...") && strings.HasPrefix(pkgPath, strings.TrimSuffix(p, "/..."))) {
			return true
		}
		if strings.HasSuffix(p, "*") && strings.HasPrefix(key, strings.TrimSuffix(p, "*")) {
			return true
		}
	}
	return false
}

type calleeInfo struct {
	key      string
	pkgPath  string
	fn       *ssa.Function
	contract *Contract
	builtin  string
	intr     intrinsic
	pure     bool
	closure  *closureInfo
	invoke   bool
	sig      *types.Signature
}

func (x *Exec) resolveCallee(fr *Frame, c *ssa.CallCommon) *calleeInfo {
	ci := &calleeInfo{sig: c.Signature()}
	if c.IsInvoke() {
		ci.invoke = true
		ci.key = ifaceKeyOf(c.Method)
		if c.Method.Pkg() != nil {
			ci.pkgPath = c.Method.Pkg().Path()
		}
		ci.contract = x.sp.Contracts[ci.key]
		if ci.contract == nil {
			ci.pure = x.isPure(ci.key, ci.pkgPath)
		}
		return ci
	}
	if b, ok := c.Value.(*ssa.Builtin); ok {
		ci.builtin = b.Name()
		ci.key = "builtin." + b.Name()
		return ci
	}
	fn := c.StaticCallee()
	if fn == nil && fr != nil {
		// call through a function value: closure created in this VC?
		if v, ok := fr.vals[c.Value]; ok && v.LV == nil && len(v.L) == 1 {
			if cl, ok := x.closures[v.L[0].S]; ok {
				ci.closure = cl
				fn = cl.fn
			}
		}
	}
	if fn == nil {
		ci.key = "dynamic:" + c.Value.Name()
		// a call through a function-typed struct field (a configured callback): an `extern
		// field:<pkg.Type>.<Field>(params)` contract, if there is one, describes it
		if u, ok := c.Value.(*ssa.UnOp); ok && u.Op == token.MUL {
			if fa, ok := u.X.(*ssa.FieldAddr); ok {
				if pt, ok := fa.X.Type().Underlying().(*types.Pointer); ok {
					if stT, ok := pt.Elem().Underlying().(*types.Struct); ok {
						k := "field:" + typeName(pt.Elem()) + "." + stT.Field(fa.Field).Name()
						if ct := x.sp.Contracts[k]; ct != nil {
							ci.key = k
							ci.contract = ct
						}
					}
				}
			}
		}
		return ci
	}
	if fn.Synthetic != "" && strings.HasPrefix(fn.Synthetic, "instantiation") && fn.Origin() != nil {
		// generic instantiation: keyed by origin name
	}
	ci.fn = fn
	ci.key = fnKeyOf(fn)
	if fn.Pkg != nil {
		ci.pkgPath = fn.Pkg.Pkg.Path()
	} else if fn.Object() != nil && fn.Object().Pkg() != nil {
		ci.pkgPath = fn.Object().Pkg().Path()
	}
	ci.contract = x.sp.Contracts[ci.key]
	if in, ok := intrinsics[fn.String()]; ok {
		ci.intr = in
	}
	if ci.contract == nil && ci.intr == nil {
		ci.pure = x.isPure(ci.key, ci.pkgPath)
	}
	return ci
}

func (x *Exec) canInline(ci *calleeInfo, depth int) bool {
	if ci.fn == nil || len(ci.fn.Blocks) == 0 || depth > 4 {
		return false
	}
	if !strings.HasPrefix(ci.pkgPath, strings.TrimSuffix(modPrefix, "/")) {
		return false
	}
	fl := analyzeLoops(ci.fn)
	if len(fl.loops) > 0 {
		c := x.sp.Contracts[ci.key]
		if c == nil {
			return false
		}
		for _, l := range fl.loops {
			if c.Loops[l.Ord] == nil {
				return false
			}
		}
	}
	return true
}

func (x *Exec) modOfCall(c *ssa.CallCommon, depth int) *ModSet {
	m := newModSet()
	ci := x.resolveCallee(nil, c)
	switch {
	case ci.builtin != "":
		switch ci.builtin {
		case "append":
			m.Ctr = true
			el := c.Args[0].Type().Underlying().(*types.Slice).Elem()
			for _, f := range familiesOf(RElem, el) {
				m.AllocFams[f.Name] = f
			}
		case "copy":
			el := c.Args[0].Type().Underlying().(*types.Slice).Elem()
			m.addFamsOf(RElem, el, 0, -1)
		case "delete":
			m.Maps[mapKey(c.Args[0].Type())] = true
		}
	case ci.intr != nil:
		ci.intr.mod(m, c)
	case ci.contract != nil && (ci.contract.Kind != "func" || !ci.contract.Inline):
		x.modOfContract(m, ci, c)
	case ci.pure:
		m.Ctr = true
	case x.canInline(ci, depth+1):
		m.union(x.modOfBlocks(ci.fn.Blocks, depth+1))
	default:
		if ci.fn == nil && !ci.invoke {
			// closure values are resolved at execution time; conservatively everything
		}
		m.All = true
	}
	return m
}

func (x *Exec) paramTypes(ci *calleeInfo, c *ssa.CallCommon) (names []string, typs []types.Type) {
	sig := ci.sig
	if ci.contract != nil && ci.contract.Params != nil {
		names = append(names, ci.contract.Params...)
	} else if ci.fn != nil {
		for _, p := range ci.fn.Params {
			names = append(names, p.Name())
		}
	} else {
		if sig.Recv() != nil && !ci.invoke {
			names = append(names, "recv")
		}
		for i := 0; i < sig.Params().Len(); i++ {
			n := sig.Params().At(i).Name()
			if n == "" || n == "_" {
				n = fmt.Sprintf("arg%d", i)
			}
			names = append(names, n)
		}
	}
	if ci.invoke {
		// receiver is not part of Params for interface contracts
		for i := 0; i < sig.Params().Len(); i++ {
			typs = append(typs, sig.Params().At(i).Type())
		}
	} else {
		for _, a := range c.Args {
			typs = append(typs, a.Type())
		}
	}
	return
}

func (x *Exec) modOfContract(m *ModSet, ci *calleeInfo, c *ssa.CallCommon) {
	ct := ci.contract
	if ct.Pure {
		return
	}
	m.Ctr = true
	names, typs := x.paramTypes(ci, c)
	for _, d := range ct.Modifies {
		if d == "everything" {
			m.All = true
			continue
		}
		if rec, ok := x.sp.Records[d]; ok {
			for _, f := range rec.Fields {
				m.Ghosts[d+"."+f.Name] = true
			}
			continue
		}
		isGhost := false
		for _, g := range x.sp.Ghosts {
			if g.Name == d {
				m.Ghosts[d] = true
				isGhost = true
			}
		}
		if isGhost {
			continue
		}
		// heap designator: *p, p.F, bigval(p), elems(p)
		if strings.HasPrefix(d, "pointee(") && strings.HasSuffix(d, ")") {
			if t := pointeeType(c, names, d[8:len(d)-1], ci.invoke); t != nil {
				switch kindOf(t) {
				case KStruct:
					m.addFamsOf(RStruct, t, 0, -1)
				case KBig:
					m.Big = true
				default:
					m.addFamsOf(RBox, t, 0, -1)
				}
				continue
			}
			m.All = true
			continue
		}
		fams, big := x.designatorFamilies(d, names, typs)
		if big {
			m.Big = true
		}
		for _, f := range fams {
			m.Fams[f.Name] = f
			m.Untargeted[f.Name] = true
		}
	}
}

// mapofType: static map type designated by mapof(p) or mapof(p.F).
func (x *Exec) mapofType(d string, find func(string) types.Type) types.Type {
	inner := d[6 : len(d)-1]
	parts := strings.SplitN(inner, ".", 2)
	t := find(parts[0])
	if len(parts) == 2 {
		pt, ok := t.Underlying().(*types.Pointer)
		if !ok {
			panic("mapof through non-pointer: " + d)
		}
		st := pt.Elem().Underlying().(*types.Struct)
		idx, _ := findField(st, parts[1])
		if idx < 0 {
			panic("mapof: no field in " + d)
		}
		t = st.Field(idx).Type()
	}
	if _, ok := t.Underlying().(*types.Map); !ok {
		panic("mapof of a non-map: " + d)
	}
	return t
}

// mapofRef: the map reference designated by mapof(p) / mapof(p.F), read in state st.
func (x *Exec) mapofRef(d string, vars map[string]*Sym, st *State) (*Term, types.Type) {
	inner := d[6 : len(d)-1]
	parts := strings.SplitN(inner, ".", 2)
	p := vars[parts[0]]
	if p == nil {
		panic("modifies: unknown parameter in " + d)
	}
	if len(parts) == 1 {
		return p.term(), p.T
	}
	pt := p.T.Underlying().(*types.Pointer)
	stT := pt.Elem().Underlying().(*types.Struct)
	idx, _ := findField(stT, parts[1])
	lv := lvalOfPtr(p, pt.Elem()).fieldOf(idx)
	return x.hp.load(st, lv).term(), stT.Field(idx).Type()
}

// fieldofFamilies: designator fieldof(pkg.Type, Field) = that field of every object of the struct type.
func (x *Exec) fieldofFamilies(d string) []Family {
	if !strings.HasPrefix(d, "fieldof(") || !strings.HasSuffix(d, ")") {
		return nil
	}
	parts := strings.SplitN(d[8:len(d)-1], ",", 2)
	if len(parts) != 2 {
		panic("modifies: fieldof(pkg.Type, Field) expected: " + d)
	}
	t := x.typeByName(strings.TrimSpace(parts[0]))
	stT, ok := t.Underlying().(*types.Struct)
	if !ok {
		panic("modifies: fieldof of a non-struct type: " + d)
	}
	idx, _ := findField(stT, strings.TrimSpace(parts[1]))
	if idx < 0 {
		panic("modifies: no such field: " + d)
	}
	off, n, _ := fieldRange(t, idx)
	out := append([]Family{}, familiesOf(RStruct, t)[off:off+n]...)
	if dualTypes[typeName(t)] {
		out = append(out, familiesOf(RElem, t)[off:off+n]...)
	}
	return out
}

func (x *Exec) designatorFamilies(d string, names []string, typs []types.Type) (fams []Family, big bool) {
	if strings.HasPrefix(d, "pointee(") {
		// resolved per call site in modOfContract
		return nil, false
	}
	find := func(n string) types.Type {
		for i, nm := range names {
			if nm == n && i < len(typs) {
				return typs[i]
			}
		}
		panic("modifies: unknown parameter " + n + " in designator " + d)
	}
	if m := reAsPtr.FindStringSubmatch(d); m != nil {
		t := x.typeByName(m[2])
		if kindOf(t) == KStruct {
			return familiesOf(RStruct, t), false
		}
		return familiesOf(RBox, t), false
	}
	if fs := x.fieldofFamilies(d); fs != nil {
		return fs, false
	}
	if strings.HasPrefix(d, "mapof(") && strings.HasSuffix(d, ")") {
		// mapof(p) / mapof(p.F): the contents of that map object
		mt := x.mapofType(d, find)
		dom, val, ln := x.mapFams(mt)
		return append(append(append([]Family{}, dom...), val...), ln), false
	}
	switch {
	case strings.HasPrefix(d, "boxof(") && strings.HasSuffix(d, ")"):
		return familiesOf(RBox, x.typeByName(d[6:len(d)-1])), false
	case strings.HasPrefix(d, "bigval(") && strings.HasSuffix(d, ")"):
		return nil, true
	case strings.HasPrefix(d, "*"):
		t := find(strings.TrimPrefix(d, "*"))
		el := t.Underlying().(*types.Pointer).Elem()
		switch kindOf(el) {
		case KStruct:
			out := append([]Family{}, familiesOf(RStruct, el)...)
			if dualTypes[typeName(el)] {
				out = append(out, familiesOf(RElem, el)...)
			}
			return out, false
		case KBig:
			return nil, true
		default:
			return familiesOf(RBox, el), false
		}
	case strings.HasPrefix(d, "elems(") && strings.HasSuffix(d, ")"):
		t := find(d[6 : len(d)-1])
		el := t.Underlying().(*types.Slice).Elem()
		return familiesOf(RElem, el), false
	case strings.Contains(d, "."):
		parts := strings.SplitN(d, ".", 2)
		t := find(parts[0])
		p, ok := t.Underlying().(*types.Pointer)
		if !ok {
			panic("modifies designator through non-pointer: " + d)
		}
		st := p.Elem().Underlying().(*types.Struct)
		idx, _ := findField(st, parts[1])
		if idx < 0 {
			panic("modifies: no field in " + d)
		}
		off, n, _ := fieldRange(p.Elem(), idx)
		out := append([]Family{}, familiesOf(RStruct, p.Elem())[off:off+n]...)
		if dualTypes[typeName(p.Elem())] {
			out = append(out, familiesOf(RElem, p.Elem())[off:off+n]...)
		}
		return out, false
	}
	panic("modifies: cannot interpret designator " + d)
}

// ---------- call execution ----------

func (x *Exec) callSiteName(fr *Frame, ci *calleeInfo) string {
	sn := shortName(ci.key)
	k := x.callOrd[fr.fn.Name()+"/"+sn]
	x.callOrd[fr.fn.Name()+"/"+sn] = k + 1
	pre := ""
	if !fr.top {
		pre = fr.fn.Name() + ":"
	}
	return fmt.Sprintf("call[%s%s#%d]", pre, sn, k)
}

func (x *Exec) doCall(fr *Frame, in ssa.Value, c *ssa.CallCommon, reach *Term, st *State) *Term {
	ci := x.resolveCallee(fr, c)
	var args []*Sym
	if ci.invoke {
		recv := x.get(fr, c.Value)
		x.vc.oblige("nil", fmt.Sprintf("nil#%d", x.vc.ord("nil")), reach, mkNot(mkEq(recv.term(), mkInt64(0))), x.pos(c.Pos()), "method call on nil interface")
	}
	for _, a := range c.Args {
		args = append(args, x.get(fr, a))
	}
	set := func(res []*Sym) {
		if in == nil {
			return
		}
		rt := c.Signature().Results()
		switch rt.Len() {
		case 0:
		case 1:
			if len(res) != 1 {
				panic(fmt.Sprintf("call %s: expected one result, got %d", ci.key, len(res)))
			}
			fr.vals[in] = res[0]
		default:
			tu := &Sym{T: rt}
			for _, r := range res {
				if r.LV != nil {
					panic("executor pointer in tuple result")
				}
				tu.L = append(tu.L, r.L...)
			}
			fr.vals[in] = tu
		}
	}
	switch {
	case ci.builtin != "":
		res := x.doBuiltin(fr, ci.builtin, c, args, reach, st)
		if res != nil {
			fr.vals[in] = res
		}
		return reach
	case ci.intr != nil:
		addUnique(&x.report.ContractUsed, "intrinsic "+ci.key)
		set(ci.intr.run(x, fr, c, args, reach, st))
		return reach
	case ci.contract != nil && !(ci.contract.Kind == "func" && ci.contract.Inline):
		site := x.callSiteName(fr, ci)
		addUnique(&x.report.ContractUsed, ci.contract.Kind+" "+ci.key)
		res := x.applyContract(fr, ci, c, args, reach, st, site)
		set(res)
		return reach
	case ci.pure:
		addUnique(&x.report.Abstracted, ci.key)
		var res []*Sym
		rt := c.Signature().Results()
		for i := 0; i < rt.Len(); i++ {
			v := x.freshSym(rt.At(i).Type(), "abs."+shortName(ci.key), nil, reach)
			if kindOf(rt.At(i).Type()) == KPtr {
				// loggers and builders return non-nil chains
				x.vc.assume(tTrue, app(SBool, ">", v.term(), mkInt64(0)))
			}
			res = append(res, v)
		}
		set(res)
		return reach
	case x.canInline(ci, fr.depth+1):
		addUnique(&x.report.Inlined, ci.key)
		res, nreach := x.inline(fr, ci, args, reach, st)
		if nreach.BLit != 2 {
			set(res)
		}
		return nreach
	}
	// unmodelled: sound havoc of everything
	addUnique(&x.report.Unmodelled, ci.key+" at "+x.pos(c.Pos()))
	ms := newModSet()
	ms.All = true
	old := st.clone()
	x.havoc(fr, st, old, ms, reach, "unmodelled call "+ci.key)
	if ci.fn == nil && !ci.invoke && ci.builtin == "" && x.isGhost("DYNCALL.n") {
		// a call through a function value: its effects are unknown (everything was havocked) but the
		// invocation itself is recorded in the ghost log DYNCALL
		n := x.hp.ghostGet(old, "DYNCALL.n")
		callee := x.get(fr, c.Value)
		st.ghost["DYNCALL.fn"] = x.vc.name("G.DYNCALL.fn", mkStore(x.hp.ghostGet(old, "DYNCALL.fn"), n, callee.term()))
		var arg *Term = mkInt64(0)
		if len(args) > 0 && args[0].LV == nil && len(args[0].L) == 1 && args[0].L[0].Sort == SInt {
			arg = args[0].L[0]
		}
		st.ghost["DYNCALL.arg"] = x.vc.name("G.DYNCALL.arg", mkStore(x.hp.ghostGet(old, "DYNCALL.arg"), n, arg))
		st.ghost["DYNCALL.n"] = x.vc.name("G.DYNCALL.n", bvBin("bvadd", n, mkBVu(1, 64)))
	}
	var res []*Sym
	rt := c.Signature().Results()
	for i := 0; i < rt.Len(); i++ {
		res = append(res, x.freshSym(rt.At(i).Type(), "unk."+shortName(ci.key), st.ctr, reach))
	}
	set(res)
	return reach
}

func (x *Exec) inline(fr *Frame, ci *calleeInfo, args []*Sym, reach *Term, st *State) ([]*Sym, *Term) {
	fn := ci.fn
	nf := x.newFrame(fn, x.sp.Contracts[ci.key], fr.depth+1, false)
	nf.entry = st.clone()
	nf.params = map[string]*Sym{}
	if len(args) != len(fn.Params) {
		panic(fmt.Sprintf("inline %s: %d args for %d params", ci.key, len(args), len(fn.Params)))
	}
	for i, p := range fn.Params {
		nf.vals[p] = args[i]
		nf.params[p.Name()] = args[i]
	}
	if ci.closure != nil {
		for i, fv := range fn.FreeVars {
			nf.vals[fv] = ci.closure.bindings[i]
		}
	} else if len(fn.FreeVars) > 0 {
		panic("inline of closure without bindings: " + ci.key)
	}
	x.vc.comment("==== inline " + ci.key)
	exits := x.runBody(nf, st.clone(), reach)
	x.vc.comment("==== end inline " + ci.key)
	if len(exits) == 0 {
		return nil, tFalse
	}
	var ins []incoming
	for _, e := range exits {
		// callee-local cells are dead after return
		for a, id := range nf.cells {
			_ = a
			delete(e.st.cells, id)
		}
		ins = append(ins, incoming{cond: e.reach, st: e.st})
	}
	nreach, ns := x.merge(ins, "ret."+fn.Name())
	*st = *ns
	nres := len(exits[0].res)
	var res []*Sym
	for i := 0; i < nres; i++ {
		v := exits[len(exits)-1].res[i]
		for j := len(exits) - 2; j >= 0; j-- {
			v = x.mergeSyms(exits[j].reach, exits[j].res[i], v)
		}
		res = append(res, x.vc.nameSym("ret."+fn.Name(), v))
	}
	return res, nreach
}

// applyContract: assert requires, havoc modifies, assume ensures.
func (x *Exec) applyContract(fr *Frame, ci *calleeInfo, c *ssa.CallCommon, args []*Sym, reach *Term, st *State, site string) []*Sym {
	ct := ci.contract
	// the callee's theories are not inherited: a caller lists the theories it needs itself, so that
	// definitions the callee's own proof needed (e.g. workdef) stay hidden from the caller's queries
	names, _ := x.paramTypes(ci, c)
	cargs := args
	if ci.invoke {
		// args exclude the receiver already
	}
	if len(names) != len(cargs) {
		panic(fmt.Sprintf("contract %s declares %d parameters but the call has %d arguments", ct.Key, len(names), len(cargs)))
	}
	pre := st.clone()
	env := &Env{x: x, vars: map[string]*Sym{}, st: pre, old: pre, ctrPre: pre.ctr}
	if len(ct.Lets) > 0 {
		env.lets = map[string]*LetDef{}
		for _, l := range ct.Lets {
			l := l
			env.lets[l.Name] = &l
		}
	}
	for i, n := range names {
		env.vars[n] = cargs[i]
	}
	if ci.invoke {
		env.vars["self"] = x.get(fr, c.Value)
	}
	pos := x.pos(c.Pos())
	for j, r := range ct.Requires {
		g := x.evalClause(env, r)
		x.vc.oblige("pre", fmt.Sprintf("%s.pre[%d]", site, j), reach, g, pos, "precondition of "+ct.Key+": "+r.Src)
		x.vc.assume(reach, g)
	}
	x.vc.comment("---- " + site + ": contract of " + ct.Key)
	prePrefix := len(x.vc.lines)
	// havoc
	if !ct.Pure {
		nc := x.vc.fresh("ctr", SInt)
		x.vc.assume(tTrue, app(SBool, ">=", nc, pre.ctr))
		st.ctr = nc
	}
	for _, d := range ct.Modifies {
		if d == "everything" {
			ms := newModSet()
			ms.All = true
			x.havoc(fr, st, pre, ms, reach, "call of "+ct.Key+" (modifies everything)")
			continue
		}
		x.havocDesignator(env, d, st, reach, c, names, ci.invoke)
	}
	// results
	var res []*Sym
	rt := c.Signature().Results()
	post := &Env{x: x, vars: map[string]*Sym{}, st: st, old: pre, ctrPre: pre.ctr, lets: env.lets}
	for k, v := range env.vars {
		post.vars[k] = v
	}
	for i := 0; i < rt.Len(); i++ {
		v := x.freshSym(rt.At(i).Type(), "r."+shortName(ct.Key), st.ctr, reach)
		res = append(res, v)
		post.vars[fmt.Sprintf("result%d", i)] = v
		if n := rt.At(i).Name(); n != "" && n != "_" {
			post.vars[n] = v
		}
	}
	if rt.Len() == 1 {
		post.vars["result"] = res[0]
	}
	if _, clash := env.vars["err"]; !clash && rt.Len() > 0 && isErrorType(rt.At(rt.Len()-1).Type()) {
		post.vars["err"] = res[rt.Len()-1]
	}
	for _, e := range ct.Ensures {
		x.vc.assume(reach, x.evalClause(post, e))
	}
	hasHistory := false
	for _, e := range ct.Ensures {
		if e.CallSite {
			hasHistory = true
		}
	}
	// (a proved contract can still carry assumed `history` clauses: e.g. one about a ghost that is missing
	// from `modifies` would contradict the unchanged ghost and make everything after the call vacuous)
	if (ct.Kind != "func" || hasHistory) && len(ct.Ensures) > 0 && fr.top {
		// an assumed (trusted / extern / interface) contract must not contradict the caller's state
		x.vc.obls = append(x.vc.obls, &Obligation{Name: x.vc.funcKey + "/vacuity[after " + site + "]", Kind: "vacuity", Prefix: len(x.vc.lines), PrePrefix: prePrefix, Reach: reach, Goal: tFalse, Func: x.vc.funcKey, Expect: "sat", Pos: pos, Info: "the assumed contract of " + ct.Key + " is satisfiable at this call"})
	}
	// caller's point assertions
	if fr.top && fr.contract != nil {
		sn := shortName(ci.key)
		var k int
		fmt.Sscanf(site[strings.LastIndex(site, "#")+1:], "%d", &k)
		for _, p := range fr.contract.Points {
			if p.CallName == sn && p.CallOrd == k {
				cenv := x.baseEnv(fr, st)
				// the results of the call are visible as ret / ret0, ret1, ...
				for i, r := range res {
					cenv.vars[fmt.Sprintf("ret%d", i)] = r
				}
				if len(res) == 1 {
					cenv.vars["ret"] = res[0]
				}
				for j, a := range p.Asserts {
					g := x.evalClause(cenv, a)
					x.vc.oblige("point", fmt.Sprintf("point[after %s#%d][%d]", sn, k, j), reach, g, pos, a.Src)
					x.vc.assume(reach, g)
				}
			}
		}
	}
	return res
}

// pointeeType: static element type of the pointer that is converted to the interface argument `pn`.
func pointeeType(c *ssa.CallCommon, names []string, pn string, invoke bool) types.Type {
	for i, n := range names {
		if n != pn || i >= len(c.Args) {
			continue
		}
		if mi, ok := c.Args[i].(*ssa.MakeInterface); ok {
			if pt, ok := mi.X.Type().Underlying().(*types.Pointer); ok {
				return pt.Elem()
			}
		}
	}
	return nil
}

var reAsPtr = regexp.MustCompile(`^\*asptr\((\w+),\s*"([^"]+)"\)$`)

func isErrorType(t types.Type) bool {
	n, ok := t.(*types.Named)
	return ok && n.Obj().Pkg() == nil && n.Obj().Name() == "error"
}

func (x *Exec) havocDesignator(env *Env, d string, st *State, reach *Term, c *ssa.CallCommon, names []string, invoke bool) {
	if rec, ok := x.sp.Records[d]; ok {
		for _, f := range rec.Fields {
			n := d + "." + f.Name
			st.ghost[n] = x.vc.fresh("G."+n, f.Sort)
		}
		return
	}
	for _, g := range x.sp.Ghosts {
		if g.Name == d {
			st.ghost[d] = x.vc.fresh("G."+d, g.Sort)
			return
		}
	}
	if strings.HasPrefix(d, "pointee(") && strings.HasSuffix(d, ")") {
		// pointee(p): p is an interface parameter holding a pointer; the designated location is what
		// that pointer points to, with the static type known at this call site
		pn := d[8 : len(d)-1]
		t := pointeeType(c, names, pn, invoke)
		p := env.vars[pn]
		if t == nil || p == nil {
			panic("modifies: cannot determine the pointee type of " + pn + " at this call site")
		}
		ptr := &Sym{T: types.NewPointer(t), L: []*Term{p.term()}}
		x.storePtr(st, ptr, t, x.freshSym(t, "mod", st.ctr, reach))
		return
	}
	if m := reAsPtr.FindStringSubmatch(d); m != nil {
		// *asptr(p, "T"): the cell of type T that the interface/ref value p points to
		p := env.vars[m[1]]
		if p == nil {
			panic("modifies: unknown parameter in " + d)
		}
		t := x.typeByName(m[2])
		ptr := &Sym{T: types.NewPointer(t), L: []*Term{p.term()}}
		x.storePtr(st, ptr, t, x.freshSym(t, "mod", st.ctr, reach))
		return
	}
	if strings.HasPrefix(d, "mapof(") && strings.HasSuffix(d, ")") {
		ref, mt := x.mapofRef(d, env.vars, st)
		dom, val, ln := x.mapFams(mt)
		for _, f := range append(append(append([]Family{}, dom...), val...), ln) {
			inner := f.Sort[len("(Array Int ") : len(f.Sort)-1]
			x.hp.heapSet(st, f, mkStore(x.hp.heapGet(st, f), ref, x.vc.fresh("mapmod", inner)))
		}
		nl := mkSelect(x.hp.heapGet(st, ln), ref)
		x.vc.assume(reach, mkAnd(bvCmp("bvsle", mkBVu(0, 64), nl), bvCmp("bvslt", nl, mkBVu(1<<40, 64))))
		return
	}
	if fs := x.fieldofFamilies(d); fs != nil {
		for _, f := range fs {
			st.fams[f.Name] = f
			st.heap[f.Name] = x.vc.fresh("H."+f.Name, f.Sort)
			x.hp.closedness(st.heap[f.Name], f, st.ctr.S)
		}
		return
	}
	switch {
	case strings.HasPrefix(d, "boxof(") && strings.HasSuffix(d, ")"):
		// every cell holding a value of the named (non-struct) type
		for _, f := range familiesOf(RBox, x.typeByName(d[6:len(d)-1])) {
			st.fams[f.Name] = f
			st.heap[f.Name] = x.vc.fresh("H."+f.Name, f.Sort)
		}
	case strings.HasPrefix(d, "bigval(") && strings.HasSuffix(d, ")"):
		p := env.vars[d[7:len(d)-1]]
		if p == nil {
			panic("modifies: unknown parameter in " + d)
		}
		x.hp.heapSet(st, bigFamily, mkStore(x.bigHeap(st), p.term(), x.vc.fresh("big", SInt)))
	case strings.HasPrefix(d, "*"):
		p := env.vars[d[1:]]
		if p == nil {
			panic("modifies: unknown parameter in " + d)
		}
		el := p.T.Underlying().(*types.Pointer).Elem()
		x.storePtr(st, p, el, x.freshSym(el, "mod", st.ctr, reach))
	case strings.HasPrefix(d, "elems(") && strings.HasSuffix(d, ")"):
		p := env.vars[d[6:len(d)-1]]
		if p == nil {
			panic("modifies: unknown parameter in " + d)
		}
		el := p.T.Underlying().(*types.Slice).Elem()
		for _, f := range familiesOf(RElem, el) {
			x.hp.heapSet(st, f, mkStore(x.hp.heapGet(st, f), p.L[0], x.vc.fresh("elems", arrSort(bvSort(64), f.Leaf.Sort))))
		}
	case strings.Contains(d, "."):
		parts := strings.SplitN(d, ".", 2)
		p := env.vars[parts[0]]
		if p == nil {
			panic("modifies: unknown parameter in " + d)
		}
		pt := p.T.Underlying().(*types.Pointer)
		stT := pt.Elem().Underlying().(*types.Struct)
		idx, _ := findField(stT, parts[1])
		lv := lvalOfPtr(p, pt.Elem()).fieldOf(idx)
		x.hp.store(st, lv, x.freshSym(lv.T, "mod", st.ctr, reach))
	default:
		panic("modifies: cannot interpret designator " + d)
	}
}

// ---------- builtins ----------

func (x *Exec) doBuiltin(fr *Frame, name string, c *ssa.CallCommon, args []*Sym, reach *Term, st *State) *Sym {
	switch name {
	case "ssa:deferstack":
		return scalar(types.Typ[types.Int], mkInt64(0))
	case "len":
		a := args[0]
		switch kindOf(a.T) {
		case KSlice:
			return scalar(types.Typ[types.Int], a.L[2])
		case KStr:
			return scalar(types.Typ[types.Int], app(bvSort(64), "slen", a.term()))
		case KMap:
			ln := mkSelect(x.mapLenHeap(st, a.T), a.term())
			return scalar(types.Typ[types.Int], mkIte(mkEq(a.term(), mkInt64(0)), mkBVu(0, 64), ln))
		case KArr, KHash:
			return scalar(types.Typ[types.Int], mkBVu(uint64(a.T.Underlying().(*types.Array).Len()), 64))
		case KPtr:
			if arr, ok := a.T.Underlying().(*types.Pointer).Elem().Underlying().(*types.Array); ok {
				return scalar(types.Typ[types.Int], mkBVu(uint64(arr.Len()), 64))
			}
		}
		panic("len of " + typeName(a.T))
	case "cap":
		a := args[0]
		if kindOf(a.T) == KSlice {
			// capacity is not modelled: any value >= len
			cp := x.vc.fresh("cap", bvSort(64))
			x.vc.assume(tTrue, bvCmp("bvsge", cp, a.L[2]))
			return scalar(types.Typ[types.Int], cp)
		}
		panic("cap of " + typeName(a.T))
	case "append":
		return x.doAppend(fr, c, args, reach, st)
	case "copy":
		return x.doCopy(fr, c, args, reach, st)
	case "delete":
		x.mapDelete(args[0], args[1], st)
		return nil
	case "print", "println":
		return nil
	case "close":
		addUnique(&x.report.Abstracted, "close(channel): no effect on the modelled state (a panic on a nil or closed channel is not modelled)")
		return nil
	case "min", "max":
		a, b := args[0], args[1]
		_, sg := intInfo(a.T)
		op := "bvult"
		if sg {
			op = "bvslt"
		}
		lt := bvCmp(op, a.term(), b.term())
		if name == "min" {
			return scalar(a.T, mkIte(lt, a.term(), b.term()))
		}
		return scalar(a.T, mkIte(lt, b.term(), a.term()))
	}
	panic("unsupported builtin " + name)
}

func (x *Exec) doAppend(fr *Frame, c *ssa.CallCommon, args []*Sym, reach *Term, st *State) *Sym {
	s, e := args[0], args[1]
	st0 := st
	el := c.Args[0].Type().Underlying().(*types.Slice).Elem()
	if kindOf(c.Args[1].Type()) == KStr {
		// append([]byte, string...)
		x.vc.declFunGlobal("sbytes", []string{SStr}, SInt)
		e = &Sym{T: c.Args[0].Type(), L: []*Term{app(SInt, "sbytes", e.term()), mkBVu(0, 64), app(bvSort(64), "slen", e.term())}}
	}
	r := x.newRef(st)
	nl := x.vc.name("len", bvBin("bvadd", s.L[2], e.L[2]))
	fams := familiesOf(RElem, el)
	for _, f := range fams {
		whole := x.hp.heapGet(st0, f)
		oldc := mkSelect(whole, s.L[0])
		ec := mkSelect(whole, e.L[0])
		cs := arrSort(bvSort(64), f.Leaf.Sort)
		var nc *Term
		if s.L[1].Lit != nil && s.L[1].Lit.Sign() == 0 && e.L[2].Lit != nil && e.L[2].Lit.Int64() <= 4 && e.L[1].Lit != nil {
			// common case: append(s, a, b): chain of stores on the old contents
			nc = oldc
			for i := int64(0); i < e.L[2].Lit.Int64(); i++ {
				nc = mkStore(nc, bvBin("bvadd", s.L[2], mkBVu(uint64(i), 64)), mkSelect(ec, elemIndex(e.L[1], mkBVu(uint64(i), 64))))
			}
		} else {
			nc = x.vc.fresh("app."+f.Name, cs)
			x.vc.assume(tTrue, mkRaw(fmt.Sprintf("(forall ((i!a (_ BitVec 64))) (! (=> (and (bvsle (_ bv0 64) i!a) (bvslt i!a %s)) (= (select %s i!a) (select %s %s))) :pattern ((select %s i!a))))", s.L[2].S, nc.S, oldc.S, elemIndex(s.L[1], mkRaw("i!a", bvSort(64))).S, nc.S), SBool))
			x.vc.assume(tTrue, mkRaw(fmt.Sprintf("(forall ((i!a (_ BitVec 64))) (! (=> (and (bvsle %s i!a) (bvslt i!a %s)) (= (select %s i!a) (select %s %s))) :pattern ((select %s i!a))))", s.L[2].S, nl.S, nc.S, ec.S, elemIndex(e.L[1], mkRaw("(bvsub i!a "+s.L[2].S+")", bvSort(64))).S, nc.S), SBool))
		}
		x.hp.heapSet(st, f, mkStore(x.hp.heapGet(st, f), r, nc))
	}
	// lengths stay in the modelled range
	x.vc.assume(reach, bvCmp("bvslt", nl, mkBVu(1<<40, 64)))
	return &Sym{T: c.Args[0].Type(), L: []*Term{r, mkBVu(0, 64), nl}}
}

func (x *Exec) doCopy(fr *Frame, c *ssa.CallCommon, args []*Sym, reach *Term, st *State) *Sym {
	d, s := args[0], args[1]
	el := c.Args[0].Type().Underlying().(*types.Slice).Elem()
	if kindOf(c.Args[1].Type()) == KStr {
		x.vc.declFunGlobal("sbytes", []string{SStr}, SInt)
		s = &Sym{T: c.Args[0].Type(), L: []*Term{app(SInt, "sbytes", s.term()), mkBVu(0, 64), app(bvSort(64), "slen", s.term())}}
	}
	n := x.vc.name("ncopy", mkIte(bvCmp("bvslt", d.L[2], s.L[2]), d.L[2], s.L[2]))
	for _, f := range familiesOf(RElem, el) {
		whole := x.hp.heapGet(st, f)
		dc := mkSelect(whole, d.L[0])
		sc := mkSelect(whole, s.L[0])
		nc := x.vc.fresh("copy."+f.Name, arrSort(bvSort(64), f.Leaf.Sort))
		// inside [doff, doff+n): source; outside: old destination contents
		x.vc.assume(tTrue, mkRaw(fmt.Sprintf("(forall ((i!c (_ BitVec 64))) (! (= (select %s i!c) (ite (and (bvsle %s i!c) (bvslt i!c (bvadd %s %s))) (select %s (bvadd %s (bvsub i!c %s))) (select %s i!c))) :pattern ((select %s i!c))))",
			nc.S, d.L[1].S, d.L[1].S, n.S, sc.S, s.L[1].S, d.L[1].S, dc.S, nc.S), SBool))
		x.hp.heapSet(st, f, mkStore(whole, d.L[0], nc))
	}
	x.writeBackView(d, st)
	return scalar(types.Typ[types.Int], n)
}

// writeBackView propagates a write into a copy-in view of an interior array back to its source.
func (x *Exec) writeBackView(sl *Sym, st *State) {
	src, ok := viewOf[sl.L[0].S]
	if !ok {
		return
	}
	el := src.T.Underlying().(*types.Pointer).Elem()
	if kindOf(el) == KHash {
		x.vc.declFunGlobal("bytes.hash", []string{arrSort(bvSort(64), bvSort(8))}, bvSort(256))
		f := familiesOf(RElem, types.Typ[types.Uint8])[0]
		x.storePtr(st, src, el, scalar(el, app(bvSort(256), "bytes.hash", mkSelect(x.hp.heapGet(st, f), sl.L[0]))))
		return
	}
	arr := el.Underlying().(*types.Array)
	v := &Sym{T: el}
	for _, f := range familiesOf(RElem, arr.Elem()) {
		v.L = append(v.L, mkSelect(x.hp.heapGet(st, f), sl.L[0]))
	}
	x.storePtr(st, src, el, v)
}

// ---------- go / defer ----------

func (x *Exec) doGo(fr *Frame, in *ssa.Go, reach *Term, st *State) {
	ci := x.resolveCallee(fr, &in.Call)
	addUnique(&x.report.Abstracted, "go "+ci.key+" (spawn recorded in ghost SPAWN; the spawned body is not interleaved)")
	// ghost log of spawned calls: SPAWN.n, SPAWN.fn[k], SPAWN.recv[k], SPAWN.arg[k] (first argument)
	if !x.isGhost("SPAWN.n") {
		return
	}
	n := x.hp.ghostGet(st, "SPAWN.n")
	fnName := x.vc.strLit(ci.key)
	st.ghost["SPAWN.fn"] = x.vc.name("G.SPAWN.fn", mkStore(x.hp.ghostGet(st, "SPAWN.fn"), n, fnName))
	var recv, arg *Term
	if ci.invoke {
		recv = x.get(fr, in.Call.Value).term()
		if len(in.Call.Args) > 0 {
			a := x.get(fr, in.Call.Args[0])
			if a.LV == nil && len(a.L) == 1 && a.L[0].Sort == SInt {
				arg = a.L[0]
			}
		}
	} else if len(in.Call.Args) > 0 {
		a := x.get(fr, in.Call.Args[0])
		if a.LV == nil && len(a.L) == 1 && a.L[0].Sort == SInt {
			recv = a.L[0]
		}
		if len(in.Call.Args) > 1 {
			b := x.get(fr, in.Call.Args[1])
			if b.LV == nil && len(b.L) == 1 && b.L[0].Sort == SInt {
				arg = b.L[0]
			}
		}
	}
	if recv == nil {
		recv = x.vc.fresh("spawn.recv", SInt)
	}
	if arg == nil {
		arg = x.vc.fresh("spawn.arg", SInt)
	}
	st.ghost["SPAWN.recv"] = x.vc.name("G.SPAWN.recv", mkStore(x.hp.ghostGet(st, "SPAWN.recv"), n, recv))
	st.ghost["SPAWN.arg"] = x.vc.name("G.SPAWN.arg", mkStore(x.hp.ghostGet(st, "SPAWN.arg"), n, arg))
	st.ghost["SPAWN.n"] = x.vc.name("G.SPAWN.n", bvBin("bvadd", n, mkBVu(1, 64)))
}

func (x *Exec) doDefer(fr *Frame, in *ssa.Defer, reach *Term, st *State) {
	ci := x.resolveCallee(fr, &in.Call)
	if ci.pure || (ci.contract != nil && ci.contract.Pure) {
		addUnique(&x.report.Abstracted, "defer "+ci.key)
		return
	}
	panic("defer of a call with modelled effects is not supported: " + ci.key)
}

func (x *Exec) doRunDefers(fr *Frame, in *ssa.RunDefers, reach *Term, st *State) {}

// ---------- maps ----------

func (x *Exec) doMakeMap(fr *Frame, in *ssa.MakeMap, st *State) {
	r := x.newRef(st)
	dom, _, ln := x.mapFams(in.Type())
	x.hp.heapSet(st, dom[0], mkStore(x.hp.heapGet(st, dom[0]), r, zeroOfSort(arrayElemSort(dom[0].Sort))))
	x.hp.heapSet(st, ln, mkStore(x.hp.heapGet(st, ln), r, mkBVu(0, 64)))
	fr.vals[in] = scalar(in.Type(), r)
}

func (x *Exec) doMapUpdate(fr *Frame, in *ssa.MapUpdate, reach *Term, st *State) {
	m := x.get(fr, in.Map)
	k := x.get(fr, in.Key).term()
	v := x.get(fr, in.Value)
	x.nilCheck(fr, m, reach, in.Pos(), "assignment to entry in nil map")
	dom, val, ln := x.mapFams(in.Map.Type())
	dh := x.hp.heapGet(st, dom[0])
	d := mkSelect(dh, m.term())
	had := x.vc.name("had", mkSelect(d, k))
	x.hp.heapSet(st, dom[0], mkStore(dh, m.term(), mkStore(d, k, tTrue)))
	for i, f := range val {
		vh := x.hp.heapGet(st, f)
		x.hp.heapSet(st, f, mkStore(vh, m.term(), mkStore(mkSelect(vh, m.term()), k, v.L[i])))
	}
	lh := x.hp.heapGet(st, ln)
	l := mkSelect(lh, m.term())
	x.hp.heapSet(st, ln, mkStore(lh, m.term(), mkIte(had, l, bvBin("bvadd", l, mkBVu(1, 64)))))
}

func (x *Exec) mapDelete(m, key *Sym, st *State) {
	k := key.term()
	dom, _, ln := x.mapFams(m.T)
	dh := x.hp.heapGet(st, dom[0])
	d := mkSelect(dh, m.term())
	had := x.vc.name("had", mkAnd(mkNot(mkEq(m.term(), mkInt64(0))), mkSelect(d, k)))
	x.hp.heapSet(st, dom[0], mkStore(dh, m.term(), mkStore(d, k, tFalse)))
	lh := x.hp.heapGet(st, ln)
	l := mkSelect(lh, m.term())
	x.hp.heapSet(st, ln, mkStore(lh, m.term(), mkIte(had, bvBin("bvsub", l, mkBVu(1, 64)), l)))
}

func (x *Exec) doLookup(fr *Frame, in *ssa.Lookup, reach *Term, st *State) {
	m := x.get(fr, in.X)
	if kindOf(in.X.Type()) == KStr {
		idx := x.toIdx(x.get(fr, in.Index))
		ln := app(bvSort(64), "slen", m.term())
		x.vc.oblige("index", fmt.Sprintf("index#%d", x.vc.ord("index")), reach, bvCmp("bvult", idx, ln), x.pos(in.Pos()), "string index out of range")
		x.vc.declFunGlobal("schar", []string{SStr, bvSort(64)}, bvSort(8))
		fr.vals[in] = scalar(in.Type(), app(bvSort(8), "schar", m.term(), idx))
		return
	}
	k := x.get(fr, in.Index).term()
	dom, val, _ := x.mapFams(in.X.Type())
	has := x.vc.name("has", mkAnd(mkNot(mkEq(m.term(), mkInt64(0))), mkSelect(mkSelect(x.hp.heapGet(st, dom[0]), m.term()), k)))
	elT := in.X.Type().Underlying().(*types.Map).Elem()
	v := &Sym{T: elT}
	for _, f := range val {
		v.L = append(v.L, mkSelect(mkSelect(x.hp.heapGet(st, f), m.term()), k))
	}
	res := iteSym(has, v, zeroSym(elT))
	if in.CommaOk {
		fr.vals[in] = &Sym{T: in.Type(), L: append(append([]*Term{}, res.L...), has)}
	} else {
		fr.vals[in] = x.vc.nameSym(in.Name(), res)
	}
	for _, a := range wellTyped(elT, res.L, st.ctr) {
		x.vc.assume(reach, a)
	}
}

func (x *Exec) doRange(fr *Frame, in *ssa.Range, st *State) {
	fr.vals[in] = x.get(fr, in.X)
}

func (x *Exec) doNext(fr *Frame, in *ssa.Next, reach *Term, st *State) {
	if in.IsString {
		panic("range over string is not supported")
	}
	m := x.get(fr, in.Iter)
	mt := m.T.Underlying().(*types.Map)
	dom, val, _ := x.mapFams(m.T)
	ok := x.vc.fresh("next.ok", SBool)
	k := x.freshSym(mt.Key(), "next.k", st.ctr, reach)
	// an element that is produced is in the map (iteration order and progress are arbitrary)
	x.vc.assume(reach, mkImp(ok, mkAnd(mkNot(mkEq(m.term(), mkInt64(0))), mkSelect(mkSelect(x.hp.heapGet(st, dom[0]), m.term()), k.term()))))
	v := &Sym{T: mt.Elem()}
	for _, f := range val {
		v.L = append(v.L, mkSelect(mkSelect(x.hp.heapGet(st, f), m.term()), k.term()))
	}
	for _, a := range wellTyped(mt.Elem(), v.L, st.ctr) {
		x.vc.assume(reach, a)
	}
	out := &Sym{T: in.Type(), L: []*Term{ok}}
	out.L = append(out.L, k.L...)
	out.L = append(out.L, v.L...)
	fr.vals[in] = out
}

var _ = token.NoPos
