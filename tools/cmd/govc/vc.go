package main

// Verification-condition container: ordered definitions/assumptions and the obligations
// that refer to a prefix of them.

import (
	"fmt"
	"sort"
	"strings"
)

type Obligation struct {
	Name   string
	Kind   string // post, pre, init, preserve, nil, index, slice, div, make, assert, panic, typeassert, frame, unwind, lemma, vacuity
	Prefix int    // number of vc.lines visible
	Reach  *Term
	Goal   *Term
	Pos    string
	Info   string
	Func   string
	Expect string // "unsat" normally; "sat" for vacuity canaries
	// PrePrefix > 0: an after-call canary. If the state after assuming the callee's contract is
	// unsatisfiable, the state just before it (PrePrefix lines) is tried: only when that one is
	// satisfiable does the assumed contract contradict the caller's state (a dead path is not an alarm).
	PrePrefix int
	Raw    string // complete SMT text (lemmas) when non-empty
}

type VC struct {
	funcKey  string
	globals  []string // always included (string literals, type ids, initial heaps)
	lines    []string
	declared map[string]bool
	obls     []*Obligation
	nfresh   int
	strLits  map[string]string // literal text -> constant name
	strOrder []string
	theories map[string]bool
	sp       *Specs
	inputs   []InputVar // top-level inputs for model extraction
	warnings []string
	counters map[string]int
}

type InputVar struct {
	Name string // contract-level name (parameter name)
	Term string
	Sort string
	GoT  string
}

func newVC(key string) *VC {
	return &VC{funcKey: key, declared: map[string]bool{}, strLits: map[string]string{}, theories: map[string]bool{}, counters: map[string]int{}}
}

func (vc *VC) warn(f string, a ...interface{}) {
	w := fmt.Sprintf(f, a...)
	for _, x := range vc.warnings {
		if x == w {
			return
		}
	}
	vc.warnings = append(vc.warnings, w)
}

func (vc *VC) ord(kind string) int {
	n := vc.counters[kind]
	vc.counters[kind] = n + 1
	return n
}

func (vc *VC) declGlobal(name, sort string) *Term {
	if !vc.declared[name] {
		vc.declared[name] = true
		vc.globals = append(vc.globals, fmt.Sprintf("(declare-const %s %s)", name, sort))
	}
	return mkRaw(name, sort)
}

func (vc *VC) declFunGlobal(name string, args []string, ret string) {
	if !vc.declared[name] {
		vc.declared[name] = true
		vc.globals = append(vc.globals, fmt.Sprintf("(declare-fun %s (%s) %s)", name, strings.Join(args, " "), ret))
	}
}

func (vc *VC) assertGlobal(s string) {
	vc.globals = append(vc.globals, "(assert "+s+")")
}

func (vc *VC) assertGlobalOrLine(s string, global bool) {
	if global {
		vc.assertGlobal(s)
	} else {
		vc.lines = append(vc.lines, "(assert "+s+")")
	}
}

func (vc *VC) fresh(hint, sort string) *Term {
	vc.nfresh++
	name := fmt.Sprintf("%s!%d", sanitize(hint), vc.nfresh)
	vc.lines = append(vc.lines, fmt.Sprintf("(declare-const %s %s)", name, sort))
	return mkRaw(name, sort)
}

// name binds a compound term to a fresh defined constant so later terms stay small.
func (vc *VC) name(hint string, t *Term) *Term {
	if t.Lit != nil || t.BLit != 0 || len(t.S) < 40 {
		return t
	}
	vc.nfresh++
	name := fmt.Sprintf("%s!%d", sanitize(hint), vc.nfresh)
	vc.lines = append(vc.lines, fmt.Sprintf("(define-fun %s () %s %s)", name, t.Sort, t.S))
	n := mkRaw(name, t.Sort)
	n.Zext, n.Sext = t.Zext, t.Sext
	return n
}

func (vc *VC) nameSym(hint string, s *Sym) *Sym {
	if s.LV != nil {
		return s
	}
	out := &Sym{T: s.T, L: make([]*Term, len(s.L))}
	for i, l := range s.L {
		out.L[i] = vc.name(hint, l)
	}
	return out
}

func (vc *VC) assume(reach, fact *Term) {
	f := mkImp(reach, fact)
	if f.BLit == 1 {
		return
	}
	vc.lines = append(vc.lines, "(assert "+f.S+")")
}

func (vc *VC) comment(s string) {
	vc.lines = append(vc.lines, "; "+strings.ReplaceAll(s, "\n", " "))
}

func (vc *VC) oblige(kind, name string, reach, goal *Term, pos, info string) {
	if goal.BLit == 1 || reach.BLit == 2 {
		// trivially discharged by construction; still counted
		vc.obls = append(vc.obls, &Obligation{Name: vc.funcKey + "/" + name, Kind: kind, Prefix: len(vc.lines), Reach: reach, Goal: goal, Pos: pos, Info: info, Func: vc.funcKey, Expect: "trivial"})
		return
	}
	vc.obls = append(vc.obls, &Obligation{Name: vc.funcKey + "/" + name, Kind: kind, Prefix: len(vc.lines), Reach: reach, Goal: goal, Pos: pos, Info: info, Func: vc.funcKey, Expect: "unsat"})
}

func (vc *VC) strLit(s string) *Term {
	if s == "" {
		return mkRaw("sempty", SStr)
	}
	if vc.sp != nil {
		if n, ok := vc.sp.StrConsts[s]; ok {
			return mkRaw(n, SStr)
		}
	}
	if n, ok := vc.strLits[s]; ok {
		return mkRaw(n, SStr)
	}
	n := fmt.Sprintf("slit.%d", len(vc.strLits))
	vc.strLits[s] = n
	vc.strOrder = append(vc.strOrder, s)
	return mkRaw(n, SStr)
}

func smtQuoteComment(s string) string {
	s = strings.ReplaceAll(s, "\n", "\\n")
	if len(s) > 60 {
		s = s[:60] + "..."
	}
	return s
}

// strDecls: declarations of string literal constants, pairwise distinct, with lengths.
func (vc *VC) strDecls() string {
	var b strings.Builder
	names := []string{"sempty"}
	if vc.sp != nil {
		for _, s := range vc.sp.StrOrder {
			n := vc.sp.StrConsts[s]
			fmt.Fprintf(&b, "(declare-const %s Str) ; %q\n", n, smtQuoteComment(s))
			fmt.Fprintf(&b, "(assert (= (slen %s) (_ bv%d 64)))\n", n, len(s))
			names = append(names, n)
		}
	}
	for _, s := range vc.strOrder {
		n := vc.strLits[s]
		fmt.Fprintf(&b, "(declare-const %s Str) ; %q\n", n, smtQuoteComment(s))
		fmt.Fprintf(&b, "(assert (= (slen %s) (_ bv%d 64)))\n", n, len(s))
		names = append(names, n)
	}
	if len(names) > 1 {
		fmt.Fprintf(&b, "(assert (distinct %s))\n", strings.Join(names, " "))
	}
	// concatenation facts between literals that are prefixes of each other are not derived.
	return b.String()
}

func (vc *VC) renderPre(prelude string, o *Obligation) string {
	c := *o
	c.Prefix = o.PrePrefix
	c.PrePrefix = 0
	return vc.render(prelude, &c)
}

func (vc *VC) render(prelude string, o *Obligation) string {
	if o.Raw != "" {
		return o.Raw
	}
	var b strings.Builder
	b.WriteString("; obligation " + o.Name + "\n; " + o.Pos + " " + o.Info + "\n(set-logic ALL)\n")
	b.WriteString(strings.Replace(prelude, ";;STRDECLS;;\n", vc.strDecls(), 1))
	for _, g := range vc.globals {
		b.WriteString(g)
		b.WriteString("\n")
	}
	for _, l := range vc.lines[:o.Prefix] {
		b.WriteString(l)
		b.WriteString("\n")
	}
	b.WriteString("(assert " + o.Reach.S + ")\n")
	if o.Expect == "sat" {
		// vacuity canary: assumptions + reach must be satisfiable
	} else {
		b.WriteString("(assert (not " + o.Goal.S + "))\n")
	}
	b.WriteString("(check-sat)\n")
	return b.String()
}

func sortedKeys[V any](m map[string]V) []string {
	ks := make([]string, 0, len(m))
	for k := range m {
		ks = append(ks, k)
	}
	sort.Strings(ks)
	return ks
}
