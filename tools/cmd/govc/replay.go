package main

import (
	"context"
	"encoding/json"
	"fmt"
	"go/types"
	"math/big"
	"os"
	"os/exec"
	"path/filepath"
	"strings"
	"time"

	"golang.org/x/tools/go/ssa"
)

type replayCtx struct {
	ld *Loaded
	sp *Specs
}

var rctx *replayCtx

// extractAndReplay asks a solver for a model of the failed obligation and, where the function's
// signature is within reach of the generic harness, runs the real code on the model's inputs and
// evaluates the contract on the real outputs.
func extractAndReplay(verif, repo string, ps *PropSpec, r *Result, sp *Specs) (map[string]interface{}, bool) {
	out := map[string]interface{}{}
	model := getModel(r)
	if model == nil {
		out["reason"] = "solver answered sat but produced no model values"
		return out, false
	}
	out["model_inputs"] = model
	conf, detail := replayOnRealCode(verif, repo, r, model)
	for k, v := range detail {
		out[k] = v
	}
	if !conf && r.FV != nil && r.Obl.Raw == "" {
		// second attempt: search for a model with the bridge functions pinned to their intended
		// interpretation (bv2nat, recursive pow2), so that the model is not an artefact of them
		text, err := sp.theoryTextMode(r.FV.Theories, true)
		if err == nil {
			f2 := r.File + ".interp.smt2"
			os.WriteFile(f2, []byte(r.FV.VC.render(text, r.Obl)), 0o644)
			r2 := &Result{Obl: r.Obl, File: f2}
			if m2 := getModel(r2); m2 != nil && len(m2) > 0 {
				conf2, d2 := replayOnRealCode(verif, repo, r, m2)
				if conf2 {
					out["model_inputs"] = m2
					out["model_note"] = "model found under the interpreted replay theories"
					for k, v := range d2 {
						out[k] = v
					}
					return out, true
				}
			}
		}
	}
	return out, conf
}

// getModel re-runs the obligation with (get-value) over the declared inputs.
func getModel(r *Result) map[string]string {
	b, err := os.ReadFile(r.File)
	if err != nil {
		return nil
	}
	text := string(b)
	var names []string
	for _, l := range strings.Split(text, "\n") {
		if strings.HasPrefix(l, "(declare-const in.") {
			f := strings.Fields(l)
			names = append(names, f[1])
		}
	}
	if len(names) == 0 {
		return map[string]string{}
	}
	q := "(set-option :produce-models true)\n" + text + "(get-value (" + strings.Join(names, " ") + "))\n"
	f := r.File + ".model.smt2"
	os.WriteFile(f, []byte(q), 0o644)
	defer os.Remove(f)
	for _, s := range []string{"z3-new", "cvc5"} {
		ctx, cancel := context.WithTimeout(context.Background(), 30*time.Second)
		var cmd *exec.Cmd
		if s == "cvc5" {
			cmd = exec.CommandContext(ctx, "cvc5", "--produce-models", "--tlimit=25000", f)
		} else {
			cmd = exec.CommandContext(ctx, s, "-T:25", f)
		}
		o, _ := cmd.CombinedOutput()
		cancel()
		outS := string(o)
		if firstAnswer(outS) != "sat" {
			continue
		}
		i := strings.Index(outS, "((")
		if i < 0 {
			continue
		}
		m := map[string]string{}
		for _, x := range readSexprs(outS[i:]) {
			for _, pair := range x.list {
				if len(pair.list) == 2 {
					m[pair.list[0].String()] = pair.list[1].String()
				}
			}
		}
		if len(m) > 0 {
			return m
		}
	}
	return nil
}

func smtBVToBig(v string) (*big.Int, bool) {
	v = strings.TrimSpace(v)
	x := new(big.Int)
	if strings.HasPrefix(v, "#x") {
		_, ok := x.SetString(v[2:], 16)
		return x, ok
	}
	if strings.HasPrefix(v, "#b") {
		_, ok := x.SetString(v[2:], 2)
		return x, ok
	}
	if strings.HasPrefix(v, "(_ bv") {
		f := strings.Fields(v[5:])
		_, ok := x.SetString(f[0], 10)
		return x, ok
	}
	return nil, false
}

type importSet struct {
	self  *types.Package
	paths map[string]string
}

func (is *importSet) qual(p *types.Package) string {
	if p == is.self {
		return ""
	}
	is.paths[p.Path()] = p.Name()
	return p.Name()
}

func isBigPtr(t types.Type) bool {
	p, ok := t.Underlying().(*types.Pointer)
	return ok && kindOf(p.Elem()) == KBig
}

// replayOnRealCode: generic harness for free functions over integer/boolean parameters whose
// results are integers, booleans or *big.Int-like pointers.
func replayOnRealCode(verif, repo string, r *Result, model map[string]string) (bool, map[string]interface{}) {
	info := map[string]interface{}{}
	if rctx == nil || rctx.ld == nil {
		info["replay"] = "packages not loaded"
		return false, info
	}
	fn := rctx.ld.funcs[r.Obl.Func]
	if fn == nil || fn.Signature.Recv() != nil || len(fn.FreeVars) > 0 || fn.Pkg == nil {
		info["replay"] = "no generic replay harness for this function shape (receiver/closure); model given as found by the solver"
		return false, info
	}
	if r.Obl.Kind != "post" {
		info["replay"] = "generic replay evaluates postconditions only; obligation kind " + r.Obl.Kind
	}
	is := &importSet{self: fn.Pkg.Pkg, paths: map[string]string{}}
	var args []string
	inputLits := map[string]*Term{}
	for _, p := range fn.Params {
		k := kindOf(p.Type())
		mv, ok := model["in."+sanitize(p.Name())]
		if !ok {
			info["replay"] = "model has no value for parameter " + p.Name()
			return false, info
		}
		ts := types.TypeString(p.Type(), is.qual)
		switch k {
		case KInt:
			w, sg := intInfo(p.Type())
			bv, ok := smtBVToBig(mv)
			if !ok {
				info["replay"] = "cannot read model value " + mv
				return false, info
			}
			lit := mkBV(bv, w)
			inputLits[p.Name()] = lit
			if sg {
				args = append(args, fmt.Sprintf("%s(%s)", ts, lit.signedVal().String()))
			} else {
				args = append(args, fmt.Sprintf("%s(%s)", ts, bv.String()))
			}
		case KBool:
			inputLits[p.Name()] = mkBool(mv == "true")
			args = append(args, mv)
		default:
			info["replay"] = "parameter " + p.Name() + " of type " + typeName(p.Type()) + " is outside the generic replay harness"
			return false, info
		}
	}
	rt := fn.Signature.Results()
	var prints []string
	for i := 0; i < rt.Len(); i++ {
		t := rt.At(i).Type()
		switch {
		case kindOf(t) == KInt:
			_, sg := intInfo(t)
			if sg {
				prints = append(prints, fmt.Sprintf("fmt.Sprint(int64(r%d))", i))
			} else {
				prints = append(prints, fmt.Sprintf("fmt.Sprint(uint64(r%d))", i))
			}
		case kindOf(t) == KBool:
			prints = append(prints, fmt.Sprintf("fmt.Sprint(r%d)", i))
		case isBigPtr(t):
			is.paths["math/big"] = "big"
			prints = append(prints, fmt.Sprintf("func() string { if r%d == nil { return \"nil\" }; return (*big.Int)(r%d).String() }()", i, i))
		default:
			info["replay"] = "result of type " + typeName(t) + " is outside the generic replay harness"
			return false, info
		}
	}
	var rs []string
	for i := 0; i < rt.Len(); i++ {
		rs = append(rs, fmt.Sprintf("r%d", i))
	}
	var src strings.Builder
	fmt.Fprintf(&src, "package %s\n\nimport (\n\t\"fmt\"\n\t\"strings\"\n\t\"testing\"\n", fn.Pkg.Pkg.Name())
	for p, n := range is.paths {
		fmt.Fprintf(&src, "\t%s %q\n", n, p)
	}
	fmt.Fprintf(&src, ")\n\nfunc TestVerifReplay(t *testing.T) {\n")
	if rt.Len() > 0 {
		fmt.Fprintf(&src, "\t%s := %s(%s)\n", strings.Join(rs, ", "), fn.Name(), strings.Join(args, ", "))
		fmt.Fprintf(&src, "\tfmt.Println(\"VERIF-REPLAY|\" + strings.Join([]string{%s}, \"|\"))\n", strings.Join(prints, ", "))
	} else {
		fmt.Fprintf(&src, "\t%s(%s)\n\tfmt.Println(\"VERIF-REPLAY|\" + strings.Join([]string{}, \"|\"))\n", fn.Name(), strings.Join(args, ", "))
	}
	fmt.Fprintf(&src, "}\n")
	info["replay_call"] = fmt.Sprintf("%s(%s)", fn.Name(), strings.Join(args, ", "))
	pkgDir := strings.TrimPrefix(fn.Pkg.Pkg.Path(), strings.TrimSuffix(modPrefix, "/"))
	pkgDir = strings.TrimPrefix(pkgDir, "/")
	tmp, err := os.MkdirTemp("", "vreplay")
	if err != nil {
		info["replay"] = err.Error()
		return false, info
	}
	defer os.RemoveAll(tmp)
	tf := filepath.Join(tmp, "zz_verif_replay_test.go")
	os.WriteFile(tf, []byte(src.String()), 0o644)
	ov := map[string]map[string]string{"Replace": {filepath.Join(repo, pkgDir, "zz_verif_replay_test.go"): tf}}
	ob, _ := json.Marshal(ov)
	ovf := filepath.Join(tmp, "ov.json")
	os.WriteFile(ovf, ob, 0o644)
	ctx, cancel := context.WithTimeout(context.Background(), 240*time.Second)
	defer cancel()
	cmd := exec.CommandContext(ctx, "go", "test", "-overlay", ovf, "-vet=off", "-v", "-count=1", "-timeout", "60s", "-run", "^TestVerifReplay$", "./"+pkgDir+"/")
	cmd.Dir = repo
	cmd.Env = append(os.Environ(), "GOFLAGS=-mod=mod", "GOPROXY=off")
	o, _ := cmd.CombinedOutput()
	var line string
	for _, l := range strings.Split(string(o), "\n") {
		if strings.HasPrefix(l, "VERIF-REPLAY|") {
			line = l
		}
	}
	if line == "" {
		info["replay"] = "real code did not return normally on the model input"
		info["replay_output"] = tail(string(o), 1500)
		// a panic on the model input is itself a confirmation for safety obligations
		if strings.Contains(string(o), "panic:") {
			info["replay_verdict"] = "real code panics on the model input"
			return true, info
		}
		return false, info
	}
	outs := strings.Split(strings.TrimPrefix(line, "VERIF-REPLAY|"), "|")
	info["replay_outputs"] = outs
	// evaluate the contract on the real outputs
	verdict, detail := evalContractOnFacts(fn, inputLits, outs)
	info["replay_verdict"] = detail
	return verdict, info
}

func tail(s string, n int) string {
	if len(s) > n {
		return s[len(s)-n:]
	}
	return s
}

// evalContractOnFacts: are the ensures clauses of fn's contract false of (inputs, real outputs)?
func evalContractOnFacts(fn *ssa.Function, inputs map[string]*Term, outs []string) (bool, string) {
	key := fnKeyOf(fn)
	sp := rctx.sp
	ct := sp.Contracts[key]
	vc := newVC(key + "/replay")
	vc.sp = sp
	rep := &FuncReport{}
	x := &Exec{ld: rctx.ld, sp: sp, vc: vc, usedFns: map[string]bool{}, tids: map[string]int{}, contract: ct, callOrd: map[string]int{}, report: rep, closures: map[string]*closureInfo{}, globals: map[*ssa.Global]*Term{}}
	x.hp = &Heaper{vc: vc, sp: sp}
	vc.theories["base"] = true
	for _, u := range ct.Uses {
		vc.theories[u] = true
	}
	st := &State{cells: map[*cellID]*Sym{}, heap: map[string]*Term{}, fams: map[string]Family{}, ghost: map[string]*Term{}}
	x.ctr0 = vc.declGlobal("ctr0", SInt)
	vc.assertGlobal("(>= ctr0 0)")
	st.ctr = x.ctr0
	pre := st.clone()
	env := &Env{x: x, vars: map[string]*Sym{}, st: st, old: pre, ctrPre: x.ctr0}
	for _, p := range fn.Params {
		env.vars[p.Name()] = scalar(p.Type(), inputs[p.Name()])
	}
	rt := fn.Signature.Results()
	var res []*Sym
	for i := 0; i < rt.Len(); i++ {
		t := rt.At(i).Type()
		var v *Sym
		switch {
		case kindOf(t) == KInt:
			w, _ := intInfo(t)
			bi, _ := new(big.Int).SetString(outs[i], 10)
			v = scalar(t, mkBV(bi, w))
		case kindOf(t) == KBool:
			v = scalar(t, mkBool(outs[i] == "true"))
		case isBigPtr(t):
			if outs[i] == "nil" {
				v = scalar(t, mkInt64(0))
			} else {
				r := x.newRef(st)
				bi, _ := new(big.Int).SetString(outs[i], 10)
				x.hp.heapSet(st, bigFamily, mkStore(x.bigHeap(st), r, mkInt(bi)))
				v = scalar(t, r)
			}
		}
		res = append(res, v)
		env.vars[fmt.Sprintf("result%d", i)] = v
		if n := rt.At(i).Name(); n != "" && n != "_" {
			env.vars[n] = v
		}
	}
	if rt.Len() == 1 {
		env.vars["result"] = res[0]
	}
	var es []*Term
	for _, c := range ct.Ensures {
		es = append(es, x.evalClause(env, c))
	}
	var ths []string
	for t := range vc.theories {
		ths = append(ths, t)
	}
	text, err := sp.theoryTextMode(ths, true)
	if err != nil {
		return false, err.Error()
	}
	var b strings.Builder
	b.WriteString("(set-logic ALL)\n")
	b.WriteString(strings.Replace(text, ";;STRDECLS;;\n", vc.strDecls(), 1))
	for _, g := range vc.globals {
		b.WriteString(g + "\n")
	}
	for _, l := range vc.lines {
		b.WriteString(l + "\n")
	}
	b.WriteString("(assert (not " + mkAnd(es...).S + "))\n(check-sat)\n")
	f, _ := os.CreateTemp("", "vfacts*.smt2")
	f.WriteString(b.String())
	f.Close()
	defer os.Remove(f.Name())
	ans, win, _ := race(f.Name(), factsTimeoutS, false)
	switch ans[win] {
	case "sat":
		return true, "confirmed-on-real-code: the real outputs falsify the contract (ground evaluation: sat)"
	case "unsat":
		return false, "not reproduced: the real outputs satisfy the contract on this input (the solver model relied on an uninterpreted function)"
	}
	return false, "ground evaluation undecided"
}

// ---- input search: when no solver produced a model (nonlinear arithmetic, quantifiers), functions
// within reach of the generic harness are run on boundary and pseudo-random inputs in one test
// binary, and the contract is evaluated on each real result; the first falsifying input is reported.

var factsTimeoutS = 30

func searchCandidates(w int, signed bool, seed int64) []*big.Int {
	one := big.NewInt(1)
	mod := new(big.Int).Lsh(one, uint(w))
	var out []*big.Int
	seen := map[string]bool{}
	add := func(v *big.Int) {
		u := new(big.Int).Mod(v, mod)
		if !seen[u.String()] {
			seen[u.String()] = true
			out = append(out, u)
		}
	}
	for _, k := range []int64{0, 1, 2, 3, 5, 7, 12, 13, 0xfc, 0xfd, 0xfe, 0xff, 0x100, 0x101, 1000, 2000, 0xffff, 0x10000} {
		add(big.NewInt(k))
		add(big.NewInt(-k))
	}
	for sh := 1; sh < w; sh += 1 {
		p := new(big.Int).Lsh(one, uint(sh))
		add(p)
		add(new(big.Int).Sub(p, one))
		add(new(big.Int).Add(p, one))
	}
	// compact-bits style values: exponent byte x mantissa
	if w == 32 {
		for _, e := range []int64{0, 1, 2, 3, 4, 0x1c, 0x1d, 0x20, 0x21, 0x22, 0xff} {
			for _, m := range []int64{0, 1, 0xffff, 0x7fffff, 0x800000, 0x800001, 0xffffff} {
				add(big.NewInt(e<<24 | m))
			}
		}
	}
	x := uint64(seed)*6364136223846793005 + 1442695040888963407
	for i := 0; i < 40; i++ {
		x = x*6364136223846793005 + 1442695040888963407
		add(new(big.Int).SetUint64(x))
	}
	return out
}

func searchOnRealCode(verif, repo string, r *Result, seed int) (bool, map[string]interface{}) {
	info := map[string]interface{}{}
	if rctx == nil || rctx.ld == nil || r.Obl.Kind != "post" {
		return false, info
	}
	fn := rctx.ld.funcs[r.Obl.Func]
	if fn == nil || fn.Signature.Recv() != nil || len(fn.FreeVars) > 0 || fn.Pkg == nil || len(fn.Params) == 0 || len(fn.Params) > 2 {
		return false, info
	}
	is := &importSet{self: fn.Pkg.Pkg, paths: map[string]string{}}
	type cand struct {
		lits []*Term
		args []string
	}
	var per [][]cand // per parameter: candidate values
	for _, p := range fn.Params {
		ts := types.TypeString(p.Type(), is.qual)
		var cs []cand
		switch kindOf(p.Type()) {
		case KInt:
			w, sg := intInfo(p.Type())
			vals := searchCandidates(w, sg, int64(seed))
			if len(fn.Params) == 2 && len(vals) > 24 {
				vals = vals[:24]
			}
			for _, v := range vals {
				lit := mkBV(v, w)
				if sg {
					cs = append(cs, cand{[]*Term{lit}, []string{fmt.Sprintf("%s(%s)", ts, lit.signedVal().String())}})
				} else {
					cs = append(cs, cand{[]*Term{lit}, []string{fmt.Sprintf("%s(%s)", ts, v.String())}})
				}
			}
		case KBool:
			cs = []cand{{[]*Term{tFalse}, []string{"false"}}, {[]*Term{tTrue}, []string{"true"}}}
		default:
			return false, info
		}
		per = append(per, cs)
	}
	var tuples []cand
	var rec func(i int, cur cand)
	rec = func(i int, cur cand) {
		if len(tuples) >= 600 {
			return
		}
		if i == len(per) {
			tuples = append(tuples, cand{append([]*Term{}, cur.lits...), append([]string{}, cur.args...)})
			return
		}
		for _, c := range per[i] {
			rec(i+1, cand{append(cur.lits, c.lits...), append(cur.args, c.args...)})
		}
	}
	rec(0, cand{})
	rt := fn.Signature.Results()
	var prints []string
	for i := 0; i < rt.Len(); i++ {
		t := rt.At(i).Type()
		switch {
		case kindOf(t) == KInt:
			_, sg := intInfo(t)
			if sg {
				prints = append(prints, fmt.Sprintf("fmt.Sprint(int64(r%d))", i))
			} else {
				prints = append(prints, fmt.Sprintf("fmt.Sprint(uint64(r%d))", i))
			}
		case kindOf(t) == KBool:
			prints = append(prints, fmt.Sprintf("fmt.Sprint(r%d)", i))
		case isBigPtr(t):
			is.paths["math/big"] = "big"
			prints = append(prints, fmt.Sprintf("func() string { if r%d == nil { return \"nil\" }; return (*big.Int)(r%d).String() }()", i, i))
		default:
			return false, info
		}
	}
	if rt.Len() == 0 {
		return false, info
	}
	var rs []string
	for i := 0; i < rt.Len(); i++ {
		rs = append(rs, fmt.Sprintf("r%d", i))
	}
	var src strings.Builder
	fmt.Fprintf(&src, "package %s\n\nimport (\n\t\"fmt\"\n\t\"strings\"\n\t\"testing\"\n", fn.Pkg.Pkg.Name())
	for p, n := range is.paths {
		fmt.Fprintf(&src, "\t%s %q\n", n, p)
	}
	fmt.Fprintf(&src, ")\n\nfunc TestVerifSearch(t *testing.T) {\n")
	for k, tu := range tuples {
		fmt.Fprintf(&src, "\tfunc() {\n\t\tdefer func() { if e := recover(); e != nil { fmt.Println(\"VERIF-SEARCH|%d|PANIC\") } }()\n\t\t%s := %s(%s)\n\t\tfmt.Println(\"VERIF-SEARCH|%d|\" + strings.Join([]string{%s}, \"|\"))\n\t}()\n", k, strings.Join(rs, ", "), fn.Name(), strings.Join(tu.args, ", "), k, strings.Join(prints, ", "))
	}
	fmt.Fprintf(&src, "}\n")
	pkgDir := strings.TrimPrefix(strings.TrimPrefix(fn.Pkg.Pkg.Path(), strings.TrimSuffix(modPrefix, "/")), "/")
	tmp, err := os.MkdirTemp("", "vsearch")
	if err != nil {
		return false, info
	}
	defer os.RemoveAll(tmp)
	tf := filepath.Join(tmp, "zz_verif_search_test.go")
	os.WriteFile(tf, []byte(src.String()), 0o644)
	ov := map[string]map[string]string{"Replace": {filepath.Join(repo, pkgDir, "zz_verif_search_test.go"): tf}}
	ob, _ := json.Marshal(ov)
	ovf := filepath.Join(tmp, "ov.json")
	os.WriteFile(ovf, ob, 0o644)
	ctx, cancel := context.WithTimeout(context.Background(), 240*time.Second)
	defer cancel()
	cmd := exec.CommandContext(ctx, "go", "test", "-overlay", ovf, "-vet=off", "-v", "-count=1", "-timeout", "120s", "-run", "^TestVerifSearch$", "./"+pkgDir+"/")
	cmd.Dir = repo
	cmd.Env = append(os.Environ(), "GOFLAGS=-mod=mod", "GOPROXY=off")
	o, _ := cmd.CombinedOutput()
	tried := 0
	deadline := time.Now().Add(75 * time.Second)
	factsTimeoutS = 4
	defer func() { factsTimeoutS = 30 }()
	for _, l := range strings.Split(string(o), "\n") {
		if !strings.HasPrefix(l, "VERIF-SEARCH|") {
			continue
		}
		if time.Now().After(deadline) {
			info["search_stopped"] = "time budget of the input search used up"
			break
		}
		f := strings.Split(strings.TrimPrefix(l, "VERIF-SEARCH|"), "|")
		var k int
		fmt.Sscanf(f[0], "%d", &k)
		if k < 0 || k >= len(tuples) || len(f) < 2 {
			continue
		}
		tried++
		call := fmt.Sprintf("%s(%s)", fn.Name(), strings.Join(tuples[k].args, ", "))
		if f[1] == "PANIC" {
			info["replay_call"] = call
			info["replay_verdict"] = "real code panics on this input (found by input search)"
			info["inputs_tried"] = tried
			return true, info
		}
		inputs := map[string]*Term{}
		for i, p := range fn.Params {
			inputs[p.Name()] = tuples[k].lits[i]
		}
		if v, detail := evalContractOnFacts(fn, inputs, f[1:]); v {
			info["replay_call"] = call
			info["replay_outputs"] = f[1:]
			info["replay_verdict"] = detail + " (input found by boundary/random search on the real code, not by a solver model)"
			info["inputs_tried"] = tried
			return true, info
		}
	}
	info["inputs_tried"] = tried
	info["search"] = "no falsifying input among the boundary and pseudo-random candidates"
	return false, info
}
