package main

// Symbolic execution of go/ssa (NaiveForm) bodies into verification conditions.
// The CFG is made acyclic by cutting loops at their invariants (or unrolling loops marked
// `unroll k`); states are merged at joins with ite, so there is no path explosion.

import (
	"fmt"
	"go/constant"
	"go/token"
	"go/types"
	"math/big"
	"os"
	"sort"
	"strings"

	"golang.org/x/tools/go/ssa"
)

type Exec struct {
	ld       *Loaded
	sp       *Specs
	vc       *VC
	hp       *Heaper
	nq       int
	usedFns  map[string]bool
	tids     map[string]int
	contract *Contract
	callOrd  map[string]int
	report   *FuncReport
	topFn    *ssa.Function
	ctr0     *Term
	entrySt  *State
	closures map[string]*closureInfo
	modScopes []map[*ssa.BasicBlock]bool
	nfuncs    int
	globals  map[*ssa.Global]*Term
}

type closureInfo struct {
	fn       *ssa.Function
	bindings []*Sym
}

type FuncReport struct {
	Key          string   `json:"function"`
	Pos          string   `json:"pos"`
	Kind         string   `json:"kind"`
	Obligations  int      `json:"obligations"`
	Trivial      int      `json:"trivially_discharged"`
	Unmodelled   []string `json:"unmodelled_calls,omitempty"`
	Abstracted   []string `json:"abstracted_calls,omitempty"`
	Inlined      []string `json:"inlined,omitempty"`
	ContractUsed []string `json:"contracts_assumed,omitempty"`
	Warnings     []string `json:"warnings,omitempty"`
	Error        string   `json:"error,omitempty"`
}

func addUnique(l *[]string, s string) {
	for _, x := range *l {
		if x == s {
			return
		}
	}
	*l = append(*l, s)
}

func (x *Exec) useFn(name string) { x.usedFns[name] = true }

func (x *Exec) pos(p token.Pos) string {
	if !p.IsValid() {
		return ""
	}
	ps := x.ld.fset.Position(p)
	return fmt.Sprintf("%s:%d", strings.TrimPrefix(ps.Filename, x.ld.repo+"/"), ps.Line)
}

func (x *Exec) tid(t types.Type) *Term {
	return x.tidByName(typeName(t))
}

func (x *Exec) tidByName(n string) *Term {
	id, ok := x.tids[n]
	if !ok {
		id = len(x.tids) + 1
		x.tids[n] = id
	}
	x.vc.comment(fmt.Sprintf("typeid %d = %s", id, n))
	return mkInt64(int64(id))
}

func (x *Exec) bigHeap(st *State) *Term {
	return x.hp.heapGet(st, bigFamily)
}

var bigFamily = Family{Name: "BigVal", Sort: arrSort(SInt, SInt), Root: RBox}

func mapKey(t types.Type) string { return sanitize(typeName(t.Underlying())) }

func (x *Exec) mapFams(t types.Type) (dom, val []Family, ln Family) {
	m := t.Underlying().(*types.Map)
	key := mapKey(t)
	kl := leavesOf(m.Key())
	if len(kl) != 1 {
		panic("map with aggregate key type unsupported: " + typeName(t))
	}
	ks := kl[0].Sort
	dom = []Family{{Name: "map." + key + ".dom", Sort: arrSort(SInt, arrSort(ks, SBool)), Root: RBox}}
	for _, l := range leavesOf(m.Elem()) {
		val = append(val, Family{Name: "map." + key + ".val" + sanitize(l.Path), Sort: arrSort(SInt, arrSort(ks, l.Sort)), Root: RBox, Leaf: l, KeySort: ks})
	}
	ln = Family{Name: "map." + key + ".len", Sort: arrSort(SInt, bvSort(64)), Root: RBox}
	return
}

func (x *Exec) mapLenHeap(st *State, t types.Type) *Term {
	_, _, ln := x.mapFams(t)
	return x.hp.heapGet(st, ln)
}

// ---------- frames ----------

type Frame struct {
	fn       *ssa.Function
	vals     map[ssa.Value]*Sym
	cells    map[*ssa.Alloc]*cellID
	allocSeq []*ssa.Alloc
	contract *Contract
	depth    int
	loops    *FnLoops
	top      bool
	entry    *State
	params   map[string]*Sym
	defers   []*ssa.Defer
}

type Exit struct {
	reach *Term
	st    *State
	res   []*Sym
	pos   token.Pos
}

type vnode struct {
	b   *ssa.BasicBlock
	ctx string
}

type incoming struct {
	cond *Term
	st   *State
	from *ssa.BasicBlock
}

func ctxKey(cs []int) string {
	var ps []string
	for _, c := range cs {
		ps = append(ps, fmt.Sprint(c))
	}
	return strings.Join(ps, ",")
}

func parseCtx(s string) []int {
	if s == "" {
		return nil
	}
	var out []int
	for _, p := range strings.Split(s, ",") {
		var v int
		fmt.Sscan(p, &v)
		out = append(out, v)
	}
	return out
}

func (fr *Frame) unrolledLoopsOf(b *ssa.BasicBlock) []*LoopInfo {
	var out []*LoopInfo
	for _, l := range fr.loops.inLoops[b] {
		if l.Spec != nil && l.Spec.Unroll > 0 {
			out = append(out, l)
		}
	}
	return out
}

type edgeKind int

const (
	eNormal edgeKind = iota
	eCutBack
	eUnwindFail
)

// succNode computes the virtual successor for edge b->s from context ctx.
func (fr *Frame) succNode(b *ssa.BasicBlock, ctx string, s *ssa.BasicBlock) (vnode, edgeKind) {
	isBack := s.Dominates(b)
	if isBack {
		li := fr.loops.byHeader[s]
		if li == nil || li.Spec == nil || li.Spec.Unroll == 0 {
			return vnode{}, eCutBack
		}
	}
	lb := fr.unrolledLoopsOf(b)
	ls := fr.unrolledLoopsOf(s)
	cb := parseCtx(ctx)
	cnt := map[*LoopInfo]int{}
	for i, l := range lb {
		if i < len(cb) {
			cnt[l] = cb[i]
		}
	}
	var ns []int
	for _, l := range ls {
		c, ok := cnt[l]
		if !ok {
			c = 0
		}
		if isBack && l.Header == s {
			c++
			if c > l.Spec.Unroll {
				return vnode{}, eUnwindFail
			}
		}
		ns = append(ns, c)
	}
	return vnode{s, ctxKey(ns)}, eNormal
}

func (x *Exec) newFrame(fn *ssa.Function, c *Contract, depth int, top bool) *Frame {
	fr := &Frame{fn: fn, vals: map[ssa.Value]*Sym{}, cells: map[*ssa.Alloc]*cellID{}, contract: c, depth: depth, top: top}
	fr.loops = analyzeLoops(fn)
	for _, l := range fr.loops.loops {
		if c != nil {
			l.Spec = c.Loops[l.Ord]
		}
	}
	if c != nil {
		for k := range c.Loops {
			if k >= len(fr.loops.loops) {
				panic(fmt.Sprintf("contract of %s mentions loop %d but the function has %d loops", c.Key, k, len(fr.loops.loops)))
			}
		}
	}
	return fr
}

// runBody executes fn from state st under reach; returns the exits (one per return site).
func (x *Exec) runBody(fr *Frame, st *State, reach *Term) []Exit {
	fn := fr.fn
	if len(fn.Blocks) == 0 {
		panic("function without body: " + fn.String())
	}
	// expand the virtual graph
	entry := vnode{fn.Blocks[0], ""}
	succs := map[vnode][]vnode{}
	seen := map[vnode]bool{}
	var post []vnode
	var dfs func(n vnode)
	dfs = func(n vnode) {
		seen[n] = true
		for _, s := range n.b.Succs {
			m, k := fr.succNode(n.b, n.ctx, s)
			if k != eNormal {
				continue
			}
			succs[n] = append(succs[n], m)
			if !seen[m] {
				dfs(m)
			}
		}
		post = append(post, n)
	}
	dfs(entry)
	pending := map[vnode][]incoming{}
	pending[entry] = []incoming{{cond: reach, st: st}}
	var exits []Exit
	for i := len(post) - 1; i >= 0; i-- {
		n := post[i]
		ins := pending[n]
		delete(pending, n)
		var live []incoming
		for _, in := range ins {
			if in.cond.BLit != 2 {
				live = append(live, in)
			}
		}
		if len(live) == 0 {
			continue
		}
		r, s := x.merge(live, fmt.Sprintf("b%d", n.b.Index))
		if li := fr.loops.byHeader[n.b]; li != nil && (li.Spec == nil || li.Spec.Unroll == 0) {
			s = x.cutLoopHead(fr, li, r, s)
		}
		x.execBlock(fr, n, r, s, pending, &exits, live)
	}
	return exits
}

func (x *Exec) merge(ins []incoming, hint string) (*Term, *State) {
	if len(ins) == 1 {
		return ins[0].cond, ins[0].st
	}
	var conds []*Term
	for _, in := range ins {
		conds = append(conds, in.cond)
	}
	reach := x.vc.name("reach."+hint, mkOr(conds...))
	base := ins[len(ins)-1].st
	out := base.clone()
	// cells: keep only cells alive in all
	for c := range base.cells {
		for _, in := range ins[:len(ins)-1] {
			if _, ok := in.st.cells[c]; !ok {
				delete(out.cells, c)
			}
		}
	}
	for c := range out.cells {
		v := base.cells[c]
		for i := len(ins) - 2; i >= 0; i-- {
			v = x.mergeSyms(ins[i].cond, ins[i].st.cells[c], v)
		}
		out.cells[c] = x.vc.nameSym("phi."+c.name, v)
	}
	// heap families: union of keys
	keys := map[string]bool{}
	for _, in := range ins {
		for k := range in.st.heap {
			keys[k] = true
		}
	}
	for _, k := range sortedKeysBool(keys) {
		f, ok := base.fams[k]
		if !ok {
			if k == bigFamily.Name {
				f = bigFamily
			} else {
				panic("merge: unknown heap family " + k)
			}
		}
		v := x.hp.heapGet(base, f)
		for i := len(ins) - 2; i >= 0; i-- {
			v = mkIte(ins[i].cond, x.hp.heapGet(ins[i].st, f), v)
		}
		out.heap[k] = x.vc.name("H."+k, v)
	}
	gkeys := map[string]bool{}
	for _, in := range ins {
		for k := range in.st.ghost {
			gkeys[k] = true
		}
	}
	for _, k := range sortedKeysBool(gkeys) {
		v := x.hp.ghostGet(base, k)
		for i := len(ins) - 2; i >= 0; i-- {
			v = mkIte(ins[i].cond, x.hp.ghostGet(ins[i].st, k), v)
		}
		out.ghost[k] = x.vc.name("G."+k, v)
	}
	c := base.ctr
	for i := len(ins) - 2; i >= 0; i-- {
		c = mkIte(ins[i].cond, ins[i].st.ctr, c)
	}
	out.ctr = x.vc.name("ctr", c)
	return reach, out
}

func sortedKeysBool(m map[string]bool) []string {
	ks := make([]string, 0, len(m))
	for k := range m {
		ks = append(ks, k)
	}
	sort.Strings(ks)
	return ks
}

// ---------- loops ----------

func (x *Exec) loopEnv(fr *Frame, st *State) *Env {
	e := x.baseEnv(fr, st)
	return e
}

func (x *Exec) baseEnv(fr *Frame, st *State) *Env {
	e := &Env{x: x, vars: map[string]*Sym{}, st: st, old: fr.entry, ctrPre: nil}
	if fr.entry != nil {
		e.ctrPre = fr.entry.ctr
	}
	for k, v := range fr.params {
		e.vars[k] = v
	}
	if fr.contract != nil && len(fr.contract.Lets) > 0 {
		e.lets = map[string]*LetDef{}
		for _, l := range fr.contract.Lets {
			l := l
			e.lets[l.Name] = &l
		}
	}
	e.locals = func(name string) (*Sym, bool) {
		// latest allocated live local with that source name
		for i := len(fr.allocSeq) - 1; i >= 0; i-- {
			a := fr.allocSeq[i]
			if a.Comment != name {
				continue
			}
			if !a.Heap {
				id := fr.cells[a]
				if v, ok := e.st.cells[id]; ok {
					return v, true
				}
				continue
			}
			p := fr.vals[a]
			if p == nil {
				continue
			}
			el := a.Type().Underlying().(*types.Pointer).Elem()
			return x.loadPtr(e.st, p, el), true
		}
		return nil, false
	}
	return e
}

func (x *Exec) cutLoopHead(fr *Frame, li *LoopInfo, reach *Term, st *State) *State {
	key := fmt.Sprintf("loop[%d]", li.Ord)
	if li.Spec == nil || len(li.Spec.Invariants) == 0 {
		if fr.top {
			x.vc.warn("loop %d of %s has no invariant (cut with `true`)", li.Ord, fr.fn.Name())
		} else {
			panic(fmt.Sprintf("inlined function %s has a loop without invariant", fr.fn.String()))
		}
	}
	if li.Spec != nil {
		env := x.loopEnv(fr, st)
		for j, inv := range li.Spec.Invariants {
			g := x.evalClause(env, inv)
			x.vc.oblige("init", fmt.Sprintf("%s.init[%d]", key, j), reach, g, x.pos(li.Header.Instrs[0].Pos()), inv.Src)
		}
	}
	// havoc what the loop may modify
	var blocks []*ssa.BasicBlock
	for _, b := range fr.fn.Blocks {
		if li.Body[b] {
			blocks = append(blocks, b)
		}
	}
	ms := x.modOfBlocks(blocks, fr.depth)
	ns := st.clone()
	x.vc.comment(fmt.Sprintf("---- loop %d head: havoc", li.Ord))
	x.havoc(fr, ns, st, ms, reach, key)
	if li.Spec != nil {
		env := x.loopEnv(fr, ns)
		for _, inv := range li.Spec.Invariants {
			x.vc.assume(reach, x.evalClause(env, inv))
		}
	}
	loopHeadState[li] = ns
	return ns
}

var loopHeadState = map[*LoopInfo]*State{}

func (x *Exec) havoc(fr *Frame, ns, old *State, ms *ModSet, reach *Term, hint string) {
	if ms.All {
		x.vc.warn("%s: unmodelled call havocs all heap and ghost state", hint)
		for k, f := range ns.fams {
			ns.heap[k] = x.vc.fresh("H."+k, f.Sort)
		}
		for _, g := range x.sp.Ghosts {
			ns.ghost[g.Name] = x.vc.fresh("G."+g.Name, g.Sort)
		}
		ns.heap[bigFamily.Name] = x.vc.fresh("H.BigVal", bigFamily.Sort)
		ns.fams[bigFamily.Name] = bigFamily
		ms.Ctr = true
	}
	if ms.Ctr || len(ms.AllocFams) > 0 {
		nc := x.vc.fresh("ctr", SInt)
		x.vc.assume(tTrue, app(SBool, ">=", nc, old.ctr))
		ns.ctr = nc
	}
	for a := range ms.Cells {
		id := fr.cells[a]
		if id == nil {
			continue
		}
		cur, ok := ns.cells[id]
		if !ok {
			continue
		}
		if cur.LV != nil && kindOf(id.t) != KPtr {
			continue
		}
		nv := x.freshSym(id.t, "c."+id.name, ns.ctr, reach)
		if cur.LV != nil {
			// a pointer cell that held an executor-level pointer: after the loop it is some pointer value
			nv = &Sym{T: id.t, L: []*Term{x.vc.fresh("c."+id.name, SInt)}}
		}
		if kindOf(id.t) == KSlice && cur.L[1].Lit != nil && cur.L[1].Lit.Sign() == 0 && ms.offStable[a] {
			// every assignment in the region is an append/make/nil: the offset stays 0
			nv = &Sym{T: nv.T, L: []*Term{nv.L[0], cur.L[1], nv.L[2]}}
		}
		ns.cells[id] = nv
	}
	for _, k := range sortedFamKeys(ms.Fams) {
		f := ms.Fams[k]
		ns.fams[k] = f
		prev := x.hp.heapGet(old, f)
		ns.heap[k] = x.vc.fresh("H."+k, f.Sort)
		x.hp.closedness(ns.heap[k], f, ns.ctr.S)
		// every write of the region to this family is `p.f = v` with p a local variable the region
		// does not assign: all other objects keep the field
		if ts := ms.Targets[k]; len(ts) > 0 && !ms.Untargeted[k] && !ms.All {
			var ne []string
			okAll := true
			for _, a := range ts {
				id := fr.cells[a]
				cur, have := ns.cells[id]
				if id == nil || !have || ms.Cells[a] || cur.LV != nil || len(cur.L) != 1 {
					okAll = false
					break
				}
				ne = append(ne, fmt.Sprintf("(not (= r!t %s))", cur.L[0].S))
			}
			if okAll {
				x.vc.assume(reach, mkRaw(fmt.Sprintf("(forall ((r!t Int)) (! (=> (and %s) (= (select %s r!t) (select %s r!t))) :pattern ((select %s r!t))))", strings.Join(ne, " "), ns.heap[k].S, prev.S, ns.heap[k].S), SBool))
			}
		}
	}
	for _, k := range sortedFamKeys(ms.AllocFams) {
		f := ms.AllocFams[k]
		oldv := x.hp.heapGet(old, f)
		ns.fams[k] = f
		nv := x.vc.fresh("H."+k, f.Sort)
		ns.heap[k] = nv
		x.hp.closedness(nv, f, ns.ctr.S)
		// objects that existed at loop entry are unchanged
		x.vc.assume(tTrue, mkRaw(fmt.Sprintf("(forall ((r!f Int)) (! (=> (<= r!f %s) (= (select %s r!f) (select %s r!f))) :pattern ((select %s r!f))))", old.ctr.S, nv.S, oldv.S, nv.S), SBool))
	}
	if ms.Big {
		ns.heap[bigFamily.Name] = x.vc.fresh("H.BigVal", bigFamily.Sort)
		ns.fams[bigFamily.Name] = bigFamily
	}
	for _, g := range sortedKeysBool(ms.Ghosts) {
		ns.ghost[g] = x.vc.fresh("G."+g, x.ghostSort(g))
	}
	for _, mk := range sortedKeysBool(ms.Maps) {
		for k, f := range ns.fams {
			if strings.HasPrefix(k, "map."+mk+".") {
				ns.heap[k] = x.vc.fresh("H."+k, f.Sort)
				// the havoced map still has a bounded length and holds only existing references
				x.hp.closedness(ns.heap[k], f, ns.ctr.S)
			}
		}
	}
}

func sortedFamKeys(m map[string]Family) []string {
	ks := make([]string, 0, len(m))
	for k := range m {
		ks = append(ks, k)
	}
	sort.Strings(ks)
	return ks
}

func (x *Exec) ghostSort(name string) string {
	for _, g := range x.sp.Ghosts {
		if g.Name == name {
			return g.Sort
		}
	}
	panic("unknown ghost " + name)
}

func (x *Exec) freshSym(t types.Type, hint string, ctr *Term, reach *Term) *Sym {
	out := &Sym{T: t}
	for _, l := range leavesOf(t) {
		out.L = append(out.L, x.vc.fresh(hint+l.Path, l.Sort))
	}
	for _, a := range wellTyped(t, out.L, ctr) {
		x.vc.assume(tTrue, a)
	}
	return out
}

func (x *Exec) evalClause(env *Env, c *Clause) (t *Term) {
	defer func() {
		if r := recover(); r != nil {
			panic(fmt.Sprintf("%s: in `%s`: %v", c.Where, c.Src, r))
		}
	}()
	return env.evalBool(c.Expr)
}

// ---------- blocks ----------

func (x *Exec) execBlock(fr *Frame, n vnode, reach *Term, st *State, pending map[vnode][]incoming, exits *[]Exit, live []incoming) {
	st = st.clone()
	b := n.b
	x.vc.comment(fmt.Sprintf("---- %s block %d (%s) ctx[%s]", fr.fn.Name(), b.Index, b.Comment, n.ctx))
	for _, in := range b.Instrs {
		if reach.BLit == 2 {
			return
		}
		switch in := in.(type) {
		case *ssa.Phi:
			var v *Sym
			for i := len(in.Edges) - 1; i >= 0; i-- {
				pred := b.Preds[i]
				var cs []*Term
				for _, l := range live {
					if l.from == pred {
						cs = append(cs, l.cond)
					}
				}
				if len(cs) == 0 {
					continue
				}
				ev := x.get(fr, in.Edges[i])
				if v == nil {
					v = ev
				} else {
					v = x.mergeSyms(mkOr(cs...), ev, v)
				}
			}
			if v == nil {
				panic("phi without live predecessor")
			}
			fr.vals[in] = x.vc.nameSym(in.Name(), &Sym{T: in.Type(), L: v.L, LV: v.LV})
		case *ssa.If:
			c := x.get(fr, in.Cond).term()
			c = x.vc.name("cond", c)
			x.flow(fr, n, b.Succs[0], x.vc.name("edge", mkAnd(reach, c)), st, pending)
			x.flow(fr, n, b.Succs[1], x.vc.name("edge", mkAnd(reach, mkNot(c))), st, pending)
			return
		case *ssa.Jump:
			x.flow(fr, n, b.Succs[0], reach, st, pending)
			return
		case *ssa.Return:
			var res []*Sym
			for _, r := range in.Results {
				res = append(res, x.get(fr, r))
			}
			*exits = append(*exits, Exit{reach: reach, st: st, res: res, pos: in.Pos()})
			return
		case *ssa.Panic:
			x.vc.oblige("panic", fmt.Sprintf("panic#%d", x.vc.ord("panic")), reach, tFalse, x.pos(in.Pos()), "explicit panic must be unreachable")
			return
		default:
			reach = x.execInstr(fr, in, reach, st)
		}
	}
}

func (x *Exec) flow(fr *Frame, n vnode, s *ssa.BasicBlock, cond *Term, st *State, pending map[vnode][]incoming) {
	if cond.BLit == 2 {
		return
	}
	m, k := fr.succNode(n.b, n.ctx, s)
	switch k {
	case eNormal:
		pending[m] = append(pending[m], incoming{cond: cond, st: st, from: n.b})
	case eUnwindFail:
		li := fr.loops.byHeader[s]
		x.vc.oblige("unwind", fmt.Sprintf("loop[%d].unwind", li.Ord), cond, tFalse, x.pos(s.Instrs[0].Pos()), fmt.Sprintf("loop runs at most %d times", li.Spec.Unroll))
	case eCutBack:
		li := fr.loops.byHeader[s]
		key := fmt.Sprintf("loop[%d]", li.Ord)
		if li.Spec != nil {
			env := x.loopEnv(fr, st)
			for j, inv := range li.Spec.Invariants {
				g := x.evalClause(env, inv)
				x.vc.oblige("preserve", fmt.Sprintf("%s.preserve[%d]", key, j), cond, g, x.pos(n.b.Instrs[len(n.b.Instrs)-1].Pos()), inv.Src)
			}
			if len(li.Spec.Steps) > 0 {
				senv := x.loopEnv(fr, st)
				senv.old = loopHeadState[li]
				for j, sc := range li.Spec.Steps {
					g := x.evalClause(senv, sc)
					x.vc.oblige("step", fmt.Sprintf("%s.step[%d]@b%d", key, j, n.b.Index), cond, g, x.pos(n.b.Instrs[len(n.b.Instrs)-1].Pos()), sc.Src)
				}
			}
			if li.Spec.Decreases != nil {
				h := loopHeadState[li]
				v0 := x.loopEnv(fr, h).eval(li.Spec.Decreases.Expr, nil)
				v1 := x.loopEnv(fr, st).eval(li.Spec.Decreases.Expr, nil)
				var g *Term
				if v0.term().isBV() {
					g = mkAnd(bvCmp("bvsle", mkBVu(0, v0.term().W), v0.term()), bvCmp("bvslt", v1.term(), v0.term()))
				} else {
					g = mkAnd(app(SBool, "<=", mkInt64(0), v0.term()), app(SBool, "<", v1.term(), v0.term()))
				}
				x.vc.oblige("decreases", key+".decreases", cond, g, x.pos(s.Instrs[0].Pos()), li.Spec.Decreases.Src)
			}
		}
	}
}

func (x *Exec) get(fr *Frame, v ssa.Value) *Sym {
	switch c := v.(type) {
	case *ssa.Const:
		return x.constSym(c)
	case *ssa.Global:
		return scalar(c.Type(), x.globalRef(c))
	case *ssa.Function:
		return scalar(c.Type(), x.funcRef(c))
	case *ssa.Builtin:
		return scalar(types.Typ[types.Int], mkInt64(0))
	}
	if s, ok := fr.vals[v]; ok {
		return s
	}
	panic(fmt.Sprintf("no value for %s = %s in %s", v.Name(), v, fr.fn.Name()))
}

func (x *Exec) globalRef(g *ssa.Global) *Term {
	if t, ok := x.globals[g]; ok {
		return t
	}
	name := "glob." + sanitize(strings.TrimPrefix(g.String(), modPrefix))
	t := x.vc.declGlobal(name, SInt)
	id := len(x.globals) + 1
	// globals live at negative addresses, pairwise distinct, disjoint from allocated refs
	x.vc.assertGlobal(fmt.Sprintf("(= %s (- %d))", name, id))
	x.globals[g] = t
	x.modelGlobalInit(g, t)
	return t
}

func (x *Exec) funcRef(f *ssa.Function) *Term {
	name := "fn." + sanitize(strings.TrimPrefix(f.String(), modPrefix))
	fresh := !x.vc.declared[name]
	t := x.vc.declGlobal(name, SInt)
	if fresh {
		// named functions live at distinct addresses below the package variables
		x.nfuncs++
		x.vc.assertGlobal(fmt.Sprintf("(= %s (- %d))", name, 1000000+x.nfuncs))
	}
	return t
}

func (x *Exec) constSym(c *ssa.Const) *Sym {
	t := c.Type()
	if c.Value == nil {
		return zeroSym(t)
	}
	switch kindOf(t) {
	case KBool:
		return scalar(t, mkBool(constant.BoolVal(c.Value)))
	case KInt:
		w, _ := intInfo(t)
		iv := constant.ToInt(c.Value)
		bi, ok := new(big.Int).SetString(iv.ExactString(), 10)
		if !ok {
			panic("bad const " + c.String())
		}
		return scalar(t, mkBV(bi, w))
	case KStr:
		return scalar(t, x.vc.strLit(constant.StringVal(c.Value)))
	case KFloat:
		return scalar(t, x.vc.fresh("float", "Float"))
	}
	panic("unsupported constant " + c.String())
}

func (x *Exec) loadPtr(st *State, p *Sym, el types.Type) *Sym {
	if kindOf(el) == KBig && p.LV == nil {
		return &Sym{T: el, L: []*Term{mkSelect(x.bigHeap(st), p.term())}}
	}
	if a, ok := el.Underlying().(*types.Array); ok && kindOf(el) == KArr && p.LV == nil {
		// pointer to a heap array object: value = its contents
		out := &Sym{T: el}
		for _, f := range familiesOf(RElem, a.Elem()) {
			out.L = append(out.L, mkSelect(x.hp.heapGet(st, f), p.term()))
		}
		return out
	}
	return x.hp.load(st, lvalOfPtr(p, el))
}

func (x *Exec) storePtr(st *State, p *Sym, el types.Type, v *Sym) {
	if kindOf(el) == KBig && p.LV == nil {
		x.hp.heapSet(st, bigFamily, mkStore(x.bigHeap(st), p.term(), v.term()))
		return
	}
	if a, ok := el.Underlying().(*types.Array); ok && kindOf(el) == KArr && p.LV == nil {
		for i, f := range familiesOf(RElem, a.Elem()) {
			x.hp.heapSet(st, f, mkStore(x.hp.heapGet(st, f), p.term(), v.L[i]))
		}
		return
	}
	x.hp.store(st, lvalOfPtr(p, el), v)
}

var nonNil = map[string]bool{}

func (x *Exec) nilCheck(fr *Frame, p *Sym, reach *Term, pos token.Pos, what string) {
	if p.LV != nil {
		return
	}
	t := p.term()
	if nonNil[t.S] || strings.HasPrefix(t.S, "(+ ") || strings.HasPrefix(t.S, "glob.") {
		return
	}
	x.vc.oblige("nil", fmt.Sprintf("nil#%d", x.vc.ord("nil")), reach, mkNot(mkEq(t, mkInt64(0))), x.pos(pos), what)
	// after the check the pointer is known to be non-nil on this path
	x.vc.assume(reach, mkNot(mkEq(t, mkInt64(0))))
}

func (x *Exec) newRef(st *State) *Term {
	r := bumpRef(st.ctr)
	st.ctr = r
	return r
}


// ---------- package-level variables ----------

// writtenGlobals: globals assigned anywhere outside their package initialiser.
func (ld *Loaded) writtenGlobals() map[*ssa.Global]bool {
	if ld.written != nil {
		return ld.written
	}
	ld.written = map[*ssa.Global]bool{}
	rootGlobal := func(v ssa.Value) *ssa.Global {
		for {
			switch a := v.(type) {
			case *ssa.Global:
				return a
			case *ssa.FieldAddr:
				v = a.X
			case *ssa.IndexAddr:
				v = a.X
			default:
				return nil
			}
		}
	}
	for _, fn := range ld.funcs {
		if fn.Name() == "init" && fn.Synthetic != "" {
			continue
		}
		for _, b := range fn.Blocks {
			for _, in := range b.Instrs {
				switch in := in.(type) {
				case *ssa.Store:
					if g := rootGlobal(in.Addr); g != nil {
						ld.written[g] = true
					}
				case ssa.CallInstruction:
					// address of a global passed to a call: may be written
					for _, a := range in.Common().Args {
						if g := rootGlobal(a); g != nil {
							ld.written[g] = true
						}
					}
				}
			}
		}
	}
	return ld.written
}

// modelGlobalInit: a package-level variable that is never assigned outside its package initialiser
// and is initialised from constants (composite literals) gets its initial value asserted.
func (x *Exec) modelGlobalInit(g *ssa.Global, ref *Term) {
	if g.Pkg == nil || x.ld.writtenGlobals()[g] {
		if os.Getenv("GOVC_DEBUG") != "" {
			fmt.Fprintln(os.Stderr, "modelGlobalInit", g.Name(), "skipped: written or no pkg")
		}
		return
	}
	initFn := g.Pkg.Func("init")
	if initFn == nil {
		return
	}
	el := g.Type().Underlying().(*types.Pointer).Elem()
	// scratch evaluation of the initialiser: only allocation, field addressing, loads, stores of constants
	st := &State{cells: map[*cellID]*Sym{}, heap: map[string]*Term{}, fams: map[string]Family{}, ghost: map[string]*Term{}, ctr: mkRaw("ctr.init", SInt)}
	fr := &Frame{fn: initFn, vals: map[ssa.Value]*Sym{}, cells: map[*ssa.Alloc]*cellID{}}
	known := map[ssa.Value]bool{}
	var final *Sym
	var direct map[int]*Term
	ok := func(v ssa.Value) bool {
		switch v.(type) {
		case *ssa.Const, *ssa.Global:
			return true
		}
		return known[v]
	}
	defer func() {
		if r := recover(); r != nil && os.Getenv("GOVC_DEBUG") != "" {
			fmt.Fprintln(os.Stderr, "modelGlobalInit", g.Name(), "panic:", r)
		}
	}()
	for _, b := range initFn.Blocks {
		for _, in := range b.Instrs {
			func() {
				defer func() {
					if r := recover(); r != nil && os.Getenv("GOVC_DEBUG") != "" {
						fmt.Fprintln(os.Stderr, "modelGlobalInit instr", in, "panic:", r)
					}
				}()
				switch in := in.(type) {
				case *ssa.Alloc:
					if !in.Heap {
						x.doAlloc(fr, in, st)
						known[in] = true
					}
				case *ssa.FieldAddr:
					if ok(in.X) {
						p := x.get(fr, in.X)
						stT := in.X.Type().Underlying().(*types.Pointer).Elem()
						fr.vals[in] = &Sym{T: in.Type(), LV: lvalOfPtr(p, stT).fieldOf(in.Field)}
						known[in] = true
					}
				case *ssa.UnOp:
					if in.Op == token.MUL && ok(in.X) {
						if _, isG := in.X.(*ssa.Global); isG {
							return
						}
						p := x.get(fr, in.X)
						if p.LV != nil && p.LV.Root == RCell {
							fr.vals[in] = x.hp.load(st, p.LV)
							known[in] = true
						}
					}
				case *ssa.Convert, *ssa.ChangeType:
					ops := in.(ssa.Instruction).Operands(nil)
					if len(ops) == 1 && ok(*ops[0]) {
						x.execInstr(fr, in.(ssa.Instruction), tTrue, st)
						known[in.(ssa.Value)] = true
					}
				case *ssa.Store:
					if gg, isG := in.Addr.(*ssa.Global); isG {
						if gg.Name() == g.Name() && os.Getenv("GOVC_DEBUG") != "" {
							fmt.Fprintln(os.Stderr, "same name", gg == g)
						}
						if gg == g && os.Getenv("GOVC_DEBUG") != "" {
							fmt.Fprintln(os.Stderr, "modelGlobalInit store to", g.Name(), "val", in.Val, "ok", ok(in.Val))
						}
						if gg == g && ok(in.Val) {
							final = x.get(fr, in.Val)
						}
						return
					}
					if ok(in.Addr) && ok(in.Val) {
						p := x.get(fr, in.Addr)
						if p.LV != nil && p.LV.Root == RCell {
							x.hp.store(st, p.LV, x.get(fr, in.Val))
						}
						// direct initialisation of a field of the global (older go/ssa builds)
						if p.LV != nil && (p.LV.Root == RStruct || p.LV.Root == RBox) && p.LV.Ref.S == ref.S && p.LV.Sub == nil && p.LV.Byte == nil {
							v := x.get(fr, in.Val)
							if v.LV == nil {
								if direct == nil {
									direct = map[int]*Term{}
								}
								for i, l := range v.L {
									direct[p.LV.Off+i] = l
								}
							}
						}
					}
				}
			}()
		}
	}
	if os.Getenv("GOVC_DEBUG") != "" {
		n := 0
		for _, b := range initFn.Blocks {
			n += len(b.Instrs)
		}
		fmt.Fprintln(os.Stderr, "modelGlobalInit", g.Name(), "final", final != nil, "blocks", len(initFn.Blocks), "instrs", n, "known", len(known), initFn.String())
	}
	if final == nil && direct != nil {
		// only the directly initialised leaves are asserted (others stay unconstrained)
		n := len(leavesOf(el))
		final = &Sym{T: el, L: make([]*Term, n)}
		for i := range final.L {
			final.L[i] = mkRaw("?", "?")
		}
		for i, l := range direct {
			if i < n {
				final.L[i] = l
			}
		}
	}
	if final == nil || final.LV != nil {
		return
	}
	// assert the initial heap at the global's address
	entry := &State{cells: map[*cellID]*Sym{}, heap: map[string]*Term{}, fams: map[string]Family{}, ghost: map[string]*Term{}, ctr: x.ctr0}
	cur := x.loadPtr(entry, scalar(g.Type(), ref), el)
	for i := range cur.L {
		if i < len(final.L) && (final.L[i].Lit != nil || final.L[i].BLit != 0 || final.L[i].Sort == SStr) {
			x.vc.assertGlobal(mkEq(cur.L[i], final.L[i]).S)
		}
	}
	addUnique(&x.report.ContractUsed, "initial value of package variable "+strings.TrimPrefix(g.String(), modPrefix)+" (never reassigned)")
}

// typeByName finds a named type "pkgpath.Name" (module prefix optional) in the loaded program.
func (x *Exec) typeByName(name string) types.Type {
	i := strings.LastIndex(name, ".")
	if i < 0 {
		panic("typeByName: need pkg.Name: " + name)
	}
	pkg, tn := name[:i], name[i+1:]
	for _, p := range x.ld.prog.AllPackages() {
		pp := p.Pkg.Path()
		if pp == pkg || pp == strings.TrimSuffix(modPrefix, "/")+"/"+pkg || strings.HasSuffix(pp, "/"+pkg) {
			if o := p.Pkg.Scope().Lookup(tn); o != nil {
				if t, ok := o.(*types.TypeName); ok {
					return t.Type()
				}
			}
		}
	}
	panic("typeByName: type not found: " + name)
}

// ---------- pointers to slice elements ----------

// dualStructTypes: struct types T for which some &s[i] (s []T or *[n]T) is used as a pointer value
// (stored, returned, compared, passed) rather than only dereferenced in place.
func (ld *Loaded) dualStructTypes() map[string]bool {
	if ld.duals != nil {
		return ld.duals
	}
	ld.duals = map[string]bool{}
	for _, fn := range ld.funcs {
		for _, b := range fn.Blocks {
			for _, in := range b.Instrs {
				ia, ok := in.(*ssa.IndexAddr)
				if !ok {
					continue
				}
				el := ia.Type().Underlying().(*types.Pointer).Elem()
				if kindOf(el) != KStruct {
					continue
				}
				for _, r := range *ia.Referrers() {
					switch u := r.(type) {
					case *ssa.FieldAddr, *ssa.DebugRef:
					case *ssa.UnOp:
					case *ssa.Store:
						if u.Val == ssa.Value(ia) {
							ld.duals[typeName(el)] = true
						}
					default:
						ld.duals[typeName(el)] = true
					}
				}
			}
		}
	}
	return ld.duals
}

// reify turns an executor-level pointer into a pointer value.
func (x *Exec) reify(s *Sym) *Sym {
	if s.LV == nil {
		return s
	}
	lv := s.LV
	if lv.Root == RElem && lv.Off == 0 && lv.Sub == nil && lv.Byte == nil && kindOf(lv.RootT) == KStruct && types.Identical(lv.T, lv.RootT) && dualTypes[typeName(lv.RootT)] {
		x.vc.theories["eref"] = true
		t := x.vc.name("eref", app(SInt, "eref", lv.Ref, lv.Idx))
		return scalar(s.T, t)
	}
	if (lv.Root == RStruct || lv.Root == RDual) && lv.Sub == nil && lv.Byte == nil && kindOf(lv.T) != KStruct {
		x.vc.theories["fptr"] = true
		k := fptrSiteK(lv.RootT, lv.Off, lv.T)
		t := x.vc.name("fptr", app(SInt, "fptr", lv.Ref, mkInt64(int64(k))))
		return scalar(s.T, t)
	}
	panic("executor-level pointer cannot be turned into a value: " + lv.String())
}

func (x *Exec) mergeSyms(c *Term, a, b *Sym) *Sym {
	if (a.LV != nil || b.LV != nil) && !(a.LV != nil && b.LV != nil && a.LV.String() == b.LV.String()) {
		a, b = x.reify(a), x.reify(b)
	}
	return iteSym(c, a, b)
}
