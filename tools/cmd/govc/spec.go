package main

// Contract / spec file loading.
//
// In /repo the contracts live in comment-only files `contracts_verif.go` (build tag verif);
// every line starting with `//@` contributes its remainder.  In /verif/spec/*.spec the same
// syntax is used without the prefix, plus theory / lemma blocks delimited by <<< and >>>.

import (
	"fmt"
	"os"
	"path/filepath"
	"regexp"
	"sort"
	"strconv"
	"strings"
)

type Clause struct {
	Expr  *Node
	Src   string
	Where string
	// CallSite: a history clause. It describes ghost bookkeeping done by the *caller* around a call
	// (appending the call's results to a ghost log); it is assumed at call sites and is not an
	// obligation of the implementation, which cannot execute ghost code.
	CallSite bool
}

type LoopSpec struct {
	Invariants []*Clause
	// Steps: per-iteration postconditions, checked at every back edge; old(...) is the state at the head
	// of the same iteration (after the invariant has been assumed)
	Steps []*Clause
	Unroll     int
	Decreases  *Clause
}

type PointSpec struct {
	// "after call F#k" : assert expr
	CallName string
	CallOrd  int
	Asserts  []*Clause
	Assumes  []*Clause
}

type Contract struct {
	Key      string
	Kind     string // func, trusted, iface, extern
	Params   []string
	Requires []*Clause
	Derives  []*Clause // assumed at entry of the verified function, justified by lemmas; not checked at call sites
	Ensures  []*Clause
	Modifies []string
	Loops    map[int]*LoopSpec
	Points   []*PointSpec
	Uses     []string
	Inline   bool
	AssumeFrame bool
	Pure     bool // no effect on any modelled state
	NoPanic  bool
	File     string
	Line     int
	Makes    map[int]*Clause // make#k: limit expression (allocation bound obligations)
	Lets     []LetDef
	Implements string // iface contract whose clauses this function must satisfy
}

type LetDef struct {
	Name   string
	Params []string
	Expr   *Node
	Src    string
}

type Theory struct {
	Name string
	Text string
	Uses []string
}

type Lemma struct {
	Name string
	Uses []string
	Text string
	File string
}

type GhostVar struct {
	Name string
	Sort string
}

type RecType struct {
	Name   string
	Fields []GhostVar // Name = component name
}

type SpecFn struct {
	Name string
	Args []string
	Ret  string
}

type Specs struct {
	Contracts map[string]*Contract
	Theories  map[string]*Theory
	Lemmas    map[string]*Lemma
	Observers map[string]bool
	Ghosts    []GhostVar          // flat: "HS.in"
	Records   map[string]*RecType // "HS"
	SortAlias map[string]string   // "Hash" -> "(_ BitVec 256)"
	Fns       map[string]*SpecFn
	Pure      []string // package path prefixes / function names treated as no-ops
	Files     []string
	StrConsts map[string]string // literal text -> SMT constant name usable in theories
	StrOrder  []string
	Macros    map[string]*LetDef // global contract-language macros (`define`)
	OnBox     map[string][]*Clause // facts assumed when a value of this struct type is converted to an interface
	OnBoxUses map[string][]string
}

func newSpecs() *Specs {
	return &Specs{Contracts: map[string]*Contract{}, Theories: map[string]*Theory{}, Lemmas: map[string]*Lemma{}, Records: map[string]*RecType{}, SortAlias: map[string]string{}, Fns: map[string]*SpecFn{}, StrConsts: map[string]string{}, Macros: map[string]*LetDef{}, OnBox: map[string][]*Clause{}, OnBoxUses: map[string][]string{}}
}

func (sp *Specs) loadSpecDir(dir string) error {
	files, _ := filepath.Glob(filepath.Join(dir, "*.spec"))
	sort.Strings(files)
	for _, f := range files {
		b, err := os.ReadFile(f)
		if err != nil {
			return err
		}
		if err := sp.parseText(f, strings.Split(string(b), "\n"), nil); err != nil {
			return err
		}
	}
	return nil
}

func (sp *Specs) loadRepoContracts(repo string) error {
	var files []string
	filepath.Walk(repo, func(p string, info os.FileInfo, err error) error {
		if err != nil {
			return nil
		}
		if info.IsDir() && (info.Name() == ".git" || info.Name() == "node_modules") {
			return filepath.SkipDir
		}
		if !info.IsDir() && info.Name() == "contracts_verif.go" {
			files = append(files, p)
		}
		return nil
	})
	sort.Strings(files)
	for _, f := range files {
		b, err := os.ReadFile(f)
		if err != nil {
			return err
		}
		var lines []string
		var nums []int
		for i, l := range strings.Split(string(b), "\n") {
			t := strings.TrimSpace(l)
			if strings.HasPrefix(t, "//@") {
				lines = append(lines, strings.TrimPrefix(t, "//@"))
				nums = append(nums, i+1)
			}
		}
		if err := sp.parseText(f, lines, nums); err != nil {
			return err
		}
	}
	return nil
}

var reHead = regexp.MustCompile(`^(func|trusted|iface|extern)\s+(\S+?)(\(([^)]*)\))?\s*$`)
var reLoop = regexp.MustCompile(`^loop\s+(\d+)\s*:\s*(invariant|unroll|decreases|step)\s+(.*)$`)
var reSelectPoint = regexp.MustCompile(`^after\s+select\s*#(\d+)\s*:\s*assume\s+(.*)$`)
var rePoint = regexp.MustCompile(`^after\s+call\s+(\S+?)#(\d+)\s*:\s*(assert|assume)\s+(.*)$`)
var reMake = regexp.MustCompile(`^make\s*#(\d+)\s*:\s*limit\s+(.*)$`)

func (sp *Specs) parseText(file string, lines []string, nums []int) error {
	sp.Files = append(sp.Files, file)
	var cur *Contract
	lineNo := func(i int) int {
		if nums != nil {
			return nums[i]
		}
		return i + 1
	}
	for i := 0; i < len(lines); i++ {
		raw := lines[i]
		l := strings.TrimSpace(raw)
		if l == "" || strings.HasPrefix(l, "#") {
			continue
		}
		// continuation
		for strings.HasSuffix(l, "\\") && i+1 < len(lines) {
			i++
			l = strings.TrimSuffix(l, "\\") + " " + strings.TrimSpace(lines[i])
		}
		where := fmt.Sprintf("%s:%d", file, lineNo(i))
		fail := func(err error) error { return fmt.Errorf("%s: %v", where, err) }
		word := l
		rest := ""
		if j := strings.IndexAny(l, " \t"); j >= 0 {
			word, rest = l[:j], strings.TrimSpace(l[j+1:])
		}
		// blocks
		if word == "theory" || word == "lemma" {
			hdr := strings.Fields(rest)
			if len(hdr) == 0 {
				return fail(fmt.Errorf("%s needs a name", word))
			}
			name := hdr[0]
			var uses []string
			if len(hdr) > 2 && hdr[1] == "uses" {
				for _, u := range hdr[2:] {
					uses = append(uses, strings.Trim(u, ","))
				}
			}
			// find <<<
			i++
			for i < len(lines) && strings.TrimSpace(lines[i]) != "<<<" {
				i++
			}
			var body []string
			i++
			for i < len(lines) && strings.TrimSpace(lines[i]) != ">>>" {
				body = append(body, lines[i])
				i++
			}
			text := strings.Join(body, "\n") + "\n"
			if word == "theory" {
				if old, ok := sp.Theories[name]; ok {
					old.Text += text
					old.Uses = append(old.Uses, uses...)
				} else {
					sp.Theories[name] = &Theory{Name: name, Text: text, Uses: uses}
				}
				sp.scanSigs(text)
			} else {
				sp.Lemmas[name] = &Lemma{Name: name, Uses: uses, Text: text, File: file}
			}
			cur = nil
			continue
		}
		switch word {
		case "sort":
			// sort Hash (_ BitVec 256)
			f := strings.SplitN(rest, " ", 2)
			if len(f) != 2 {
				return fail(fmt.Errorf("sort alias needs name and sort"))
			}
			sp.SortAlias[f[0]] = strings.TrimSpace(f[1])
			cur = nil
			continue
		case "observer":
			// observer NAME: the ghost (record) NAME is an observation log of the current activation,
			// written only by history clauses; it is outside every frame obligation (a callee's own
			// observations are not the caller's)
			if sp.Observers == nil {
				sp.Observers = map[string]bool{}
			}
			sp.Observers[strings.TrimSpace(rest)] = true
			cur = nil
			continue
		case "ghost":
			f := strings.SplitN(rest, " ", 2)
			if len(f) != 2 {
				return fail(fmt.Errorf("ghost needs name and sort"))
			}
			name, srt := f[0], sp.resolveSort(strings.TrimSpace(f[1]))
			sp.Ghosts = append(sp.Ghosts, GhostVar{name, srt})
			if j := strings.Index(name, "."); j >= 0 {
				rec := name[:j]
				if sp.Records[rec] == nil {
					sp.Records[rec] = &RecType{Name: rec}
				}
				sp.Records[rec].Fields = append(sp.Records[rec].Fields, GhostVar{name[j+1:], srt})
			}
			cur = nil
			continue
		case "strconst":
			// strconst NAME "text"
			f := strings.SplitN(rest, " ", 2)
			if len(f) != 2 {
				return fail(fmt.Errorf("strconst needs name and literal"))
			}
			txt := strings.Trim(strings.TrimSpace(f[1]), "\"")
			sp.StrConsts[txt] = f[0]
			sp.StrOrder = append(sp.StrOrder, txt)
			sp.Fns[f[0]] = &SpecFn{Name: f[0], Ret: SStr}
			cur = nil
			continue
		case "onbox":
			// onbox <pkg.Type> [uses a,b :] <expr over self>
			f := strings.SplitN(rest, " ", 2)
			if len(f) != 2 {
				return fail(fmt.Errorf("onbox needs a type and an expression"))
			}
			ex := strings.TrimSpace(f[1])
			if strings.HasPrefix(ex, "uses ") {
				j := strings.Index(ex, ":")
				for _, u := range strings.Split(ex[5:j], ",") {
					sp.OnBoxUses[f[0]] = append(sp.OnBoxUses[f[0]], strings.TrimSpace(u))
				}
				ex = strings.TrimSpace(ex[j+1:])
			}
			n, err := parseExpr(ex)
			if err != nil {
				return fail(err)
			}
			sp.OnBox[f[0]] = append(sp.OnBox[f[0]], &Clause{Expr: n, Src: ex, Where: where})
			cur = nil
			continue
		case "define":
			j := strings.Index(rest, "=")
			if j < 0 {
				return fail(fmt.Errorf("define needs ="))
			}
			n, err := parseExpr(strings.TrimSpace(rest[j+1:]))
			if err != nil {
				return fail(err)
			}
			ld := &LetDef{Name: strings.TrimSpace(rest[:j]), Expr: n, Src: rest}
			if k := strings.Index(ld.Name, "("); k >= 0 && strings.HasSuffix(ld.Name, ")") {
				for _, p := range strings.Split(ld.Name[k+1:len(ld.Name)-1], ",") {
					if strings.TrimSpace(p) != "" {
						ld.Params = append(ld.Params, strings.TrimSpace(p))
					}
				}
				ld.Name = ld.Name[:k]
			}
			sp.Macros[ld.Name] = ld
			cur = nil
			continue
		case "pure":
			sp.Pure = append(sp.Pure, strings.Fields(rest)...)
			cur = nil
			continue
		}
		if m := reHead.FindStringSubmatch(l); m != nil {
			c := &Contract{Key: m[2], Kind: m[1], Loops: map[int]*LoopSpec{}, Makes: map[int]*Clause{}, File: file, Line: lineNo(i)}
			if m[3] != "" {
				for _, p := range strings.Split(m[4], ",") {
					p = strings.TrimSpace(p)
					if p != "" {
						c.Params = append(c.Params, p)
					}
				}
				if c.Params == nil {
					c.Params = []string{}
				}
			}
			if _, dup := sp.Contracts[c.Key]; dup {
				return fail(fmt.Errorf("duplicate contract for %s", c.Key))
			}
			sp.Contracts[c.Key] = c
			cur = c
			continue
		}
		if cur == nil {
			return fail(fmt.Errorf("clause outside a contract: %s", l))
		}
		mk := func(src string) (*Clause, error) {
			n, err := parseExpr(src)
			if err != nil {
				return nil, err
			}
			return &Clause{Expr: n, Src: src, Where: where}, nil
		}
		switch word {
		case "requires", "ensures", "derive", "history":
			c, err := mk(rest)
			if err != nil {
				return fail(err)
			}
			c.CallSite = word == "history"
			switch word {
			case "requires":
				cur.Requires = append(cur.Requires, c)
			case "derive":
				cur.Derives = append(cur.Derives, c)
			default:
				cur.Ensures = append(cur.Ensures, c)
			}
		case "let":
			j := strings.Index(rest, "=")
			if j < 0 {
				return fail(fmt.Errorf("let needs ="))
			}
			n, err := parseExpr(strings.TrimSpace(rest[j+1:]))
			if err != nil {
				return fail(err)
			}
			ld := LetDef{Name: strings.TrimSpace(rest[:j]), Expr: n, Src: rest}
			if k := strings.Index(ld.Name, "("); k >= 0 && strings.HasSuffix(ld.Name, ")") {
				for _, p := range strings.Split(ld.Name[k+1:len(ld.Name)-1], ",") {
					ld.Params = append(ld.Params, strings.TrimSpace(p))
				}
				ld.Name = ld.Name[:k]
			}
			cur.Lets = append(cur.Lets, ld)
		case "modifies":
			for _, m := range splitTop(rest) {
				m = strings.TrimSpace(m)
				if m != "" {
					cur.Modifies = append(cur.Modifies, m)
				}
			}
		case "uses":
			for _, m := range strings.Split(rest, ",") {
				m = strings.TrimSpace(m)
				if m != "" {
					cur.Uses = append(cur.Uses, m)
				}
			}
		case "implements":
			cur.Implements = rest
		case "assumeframe":
			// the frame (nothing outside `modifies` changes) of this function is assumed, not proved
			cur.AssumeFrame = true
		case "inline":
			cur.Inline = true
		case "noeffect":
			cur.Pure = true
		case "loop":
			m := reLoop.FindStringSubmatch(l)
			if m == nil {
				return fail(fmt.Errorf("bad loop clause: %s", l))
			}
			k, _ := strconv.Atoi(m[1])
			ls := cur.Loops[k]
			if ls == nil {
				ls = &LoopSpec{}
				cur.Loops[k] = ls
			}
			switch m[2] {
			case "invariant":
				c, err := mk(m[3])
				if err != nil {
					return fail(err)
				}
				ls.Invariants = append(ls.Invariants, c)
			case "step":
				c, err := mk(m[3])
				if err != nil {
					return fail(err)
				}
				ls.Steps = append(ls.Steps, c)
			case "decreases":
				c, err := mk(m[3])
				if err != nil {
					return fail(err)
				}
				ls.Decreases = c
			case "unroll":
				n, err := strconv.Atoi(strings.TrimSpace(m[3]))
				if err != nil {
					return fail(err)
				}
				ls.Unroll = n
			}
		case "after":
			if ms := reSelectPoint.FindStringSubmatch(l); ms != nil {
				// `after select #k: assume e` - an assumption about what the k-th select of the function
				// receives from other goroutines (reported as an assumption, never proved)
				k, _ := strconv.Atoi(ms[1])
				c, err := mk(ms[2])
				if err != nil {
					return fail(err)
				}
				cur.Points = append(cur.Points, &PointSpec{CallName: "select", CallOrd: k, Assumes: []*Clause{c}})
				continue
			}
			m := rePoint.FindStringSubmatch(l)
			if m == nil {
				return fail(fmt.Errorf("bad point clause: %s", l))
			}
			k, _ := strconv.Atoi(m[2])
			c, err := mk(m[4])
			if err != nil {
				return fail(err)
			}
			var ps *PointSpec
			for _, p := range cur.Points {
				if p.CallName == m[1] && p.CallOrd == k {
					ps = p
				}
			}
			if ps == nil {
				ps = &PointSpec{CallName: m[1], CallOrd: k}
				cur.Points = append(cur.Points, ps)
			}
			if m[3] == "assert" {
				ps.Asserts = append(ps.Asserts, c)
			} else {
				ps.Assumes = append(ps.Assumes, c)
			}
		case "make":
			m := reMake.FindStringSubmatch(l)
			if m == nil {
				return fail(fmt.Errorf("bad make clause: %s", l))
			}
			k, _ := strconv.Atoi(m[1])
			c, err := mk(m[2])
			if err != nil {
				return fail(err)
			}
			cur.Makes[k] = c
		default:
			return fail(fmt.Errorf("unknown clause %q", word))
		}
	}
	return nil
}

// resolveImplements copies the clauses of the interface contract into each implementing contract.
func (sp *Specs) resolveImplements() error {
	// sort aliases may be declared in a file loaded after the ghost declaration that uses them
	for i := range sp.Ghosts {
		sp.Ghosts[i].Sort = sp.resolveSort(sp.Ghosts[i].Sort)
	}
	for _, r := range sp.Records {
		for i := range r.Fields {
			r.Fields[i].Sort = sp.resolveSort(r.Fields[i].Sort)
		}
	}
	for _, c := range sp.Contracts {
		if c.Implements == "" {
			continue
		}
		ic := sp.Contracts[c.Implements]
		if ic == nil || ic.Kind != "iface" {
			return fmt.Errorf("%s: implements unknown interface contract %s", c.Key, c.Implements)
		}
		c.Requires = append(append([]*Clause{}, ic.Requires...), c.Requires...)
		c.Ensures = append(append([]*Clause{}, ic.Ensures...), c.Ensures...)
		c.Modifies = append(append([]string{}, ic.Modifies...), c.Modifies...)
		c.Uses = append(append([]string{}, ic.Uses...), c.Uses...)
		c.Lets = append(append([]LetDef{}, ic.Lets...), c.Lets...)
	}
	return nil
}

func (sp *Specs) resolveSort(s string) string {
	// replace alias names appearing as whole tokens
	for changed := true; changed; {
		changed = false
		for a, t := range sp.SortAlias {
			re := regexp.MustCompile(`(^|[\s(])` + regexp.QuoteMeta(a) + `($|[\s)])`)
			if re.MatchString(s) {
				s = re.ReplaceAllString(s, "${1}"+t+"${2}")
				changed = true
			}
		}
	}
	return s
}

// ---- signature scanning of theory text ----

type sx struct {
	atom string
	list []*sx
}

func (s *sx) String() string {
	if s.list == nil {
		return s.atom
	}
	parts := make([]string, len(s.list))
	for i, x := range s.list {
		parts[i] = x.String()
	}
	return "(" + strings.Join(parts, " ") + ")"
}

func readSexprs(text string) []*sx {
	var out []*sx
	var stack []*sx
	i := 0
	push := func(x *sx) {
		if len(stack) == 0 {
			out = append(out, x)
		} else {
			top := stack[len(stack)-1]
			top.list = append(top.list, x)
		}
	}
	for i < len(text) {
		c := text[i]
		switch {
		case c == ';':
			for i < len(text) && text[i] != '\n' {
				i++
			}
		case c == '(':
			stack = append(stack, &sx{list: []*sx{}})
			i++
		case c == ')':
			if len(stack) == 0 {
				i++
				continue
			}
			x := stack[len(stack)-1]
			stack = stack[:len(stack)-1]
			push(x)
			i++
		case c == ' ' || c == '\n' || c == '\t' || c == '\r':
			i++
		case c == '|':
			j := i + 1
			for j < len(text) && text[j] != '|' {
				j++
			}
			push(&sx{atom: text[i : j+1]})
			i = j + 1
		case c == '"':
			j := i + 1
			for j < len(text) && text[j] != '"' {
				j++
			}
			push(&sx{atom: text[i : j+1]})
			i = j + 1
		default:
			j := i
			for j < len(text) && !strings.ContainsRune(" \n\t\r()", rune(text[j])) {
				j++
			}
			push(&sx{atom: text[i:j]})
			i = j
		}
	}
	return out
}

func (sp *Specs) scanSigs(text string) {
	for _, x := range readSexprs(text) {
		if x.list == nil || len(x.list) < 3 {
			continue
		}
		head := x.list[0].atom
		switch head {
		case "declare-fun":
			if len(x.list) < 4 {
				continue
			}
			fn := &SpecFn{Name: x.list[1].atom, Ret: x.list[3].String()}
			for _, a := range x.list[2].list {
				fn.Args = append(fn.Args, a.String())
			}
			sp.Fns[fn.Name] = fn
		case "declare-const":
			sp.Fns[x.list[1].atom] = &SpecFn{Name: x.list[1].atom, Ret: x.list[2].String()}
		case "define-fun", "define-fun-rec":
			if len(x.list) < 5 {
				continue
			}
			fn := &SpecFn{Name: x.list[1].atom, Ret: x.list[3].String()}
			for _, a := range x.list[2].list {
				if len(a.list) == 2 {
					fn.Args = append(fn.Args, a.list[1].String())
				}
			}
			sp.Fns[fn.Name] = fn
		case "define-sort":
			// (define-sort Hash () (_ BitVec 256))
			if len(x.list) == 4 && len(x.list[2].list) == 0 {
				sp.SortAlias[x.list[1].atom] = x.list[3].String()
			}
		}
	}
	// resolve aliases in signatures
	for _, fn := range sp.Fns {
		for i := range fn.Args {
			fn.Args[i] = sp.resolveSort(fn.Args[i])
		}
		fn.Ret = sp.resolveSort(fn.Ret)
	}
}

// theoryText returns the concatenated text of the named theories and their dependencies,
// in dependency order, each once.
func (sp *Specs) theoryText(names []string) (string, error) {
	return sp.theoryTextMode(names, false)
}

// theoryTextMode: in replay mode a theory `n@replay` (functions pinned to their intended
// interpretation, for evaluating ground facts) replaces `n` where it exists.
func (sp *Specs) theoryTextMode(names []string, replay bool) (string, error) {
	var out strings.Builder
	seen := map[string]bool{}
	var visit func(n string) error
	visit = func(n string) error {
		if seen[n] {
			return nil
		}
		seen[n] = true
		t, ok := sp.Theories[n]
		if !ok {
			return fmt.Errorf("unknown theory %q", n)
		}
		if replay {
			if rt, ok := sp.Theories[n+"@replay"]; ok {
				t = &Theory{Name: n, Text: rt.Text, Uses: t.Uses}
			}
		}
		for _, u := range t.Uses {
			if err := visit(u); err != nil {
				return err
			}
		}
		out.WriteString("; ---- theory " + n + "\n")
		out.WriteString(t.Text)
		return nil
	}
	if _, ok := sp.Theories["base"]; ok {
		if err := visit("base"); err != nil {
			return "", err
		}
	}
	out.WriteString(";;STRDECLS;;\n")
	for _, n := range names {
		if err := visit(n); err != nil {
			return "", err
		}
	}
	return out.String(), nil
}

// splitTop splits on commas that are not inside parentheses.
func splitTop(s string) []string {
	var out []string
	depth, start := 0, 0
	for i, c := range s {
		switch c {
		case '(':
			depth++
		case ')':
			depth--
		case ',':
			if depth == 0 {
				out = append(out, s[start:i])
				start = i + 1
			}
		}
	}
	return append(out, s[start:])
}
