package main

// Evaluation of contract expressions to symbolic values, in a given program state.

import (
	"strconv"
	"regexp"
	"golang.org/x/tools/go/ssa"
	"fmt"
	"go/types"
	"math/big"
	"strings"
)

type Env struct {
	x      *Exec
	vars   map[string]*Sym
	st     *State
	old    *State
	ctrPre *Term
	locals func(name string) (*Sym, bool)
	lets   map[string]*LetDef
	depth  int
	// litVars: macro parameters bound to integer literals; typed by the context of each use
	litVars map[string]*Node
}

var reByteArr = regexp.MustCompile(`^\[(\d+)\](byte|uint8)$`)

func (e *Env) with(name string, v *Sym) *Env {
	n := *e
	n.vars = map[string]*Sym{}
	for k, x := range e.vars {
		n.vars[k] = x
	}
	n.vars[name] = v
	return &n
}

var basicByName = map[string]types.Type{
	"int": types.Typ[types.Int], "int8": types.Typ[types.Int8], "int16": types.Typ[types.Int16], "int32": types.Typ[types.Int32], "int64": types.Typ[types.Int64],
	"uint": types.Typ[types.Uint], "uint8": types.Typ[types.Uint8], "uint16": types.Typ[types.Uint16], "uint32": types.Typ[types.Uint32], "uint64": types.Typ[types.Uint64],
	"byte": types.Typ[types.Uint8], "bool": types.Typ[types.Bool], "string": types.Typ[types.String], "uintptr": types.Typ[types.Uintptr],
}

// Spec-only value (no Go type): Sg tells signedness for bit-vectors.
type specInfo struct{ signed bool }

var specSigned = map[*Sym]bool{}

func isSigned(s *Sym) bool {
	if s.T != nil {
		_, sg := intInfo(s.T)
		return sg
	}
	// spec-level bit-vectors (ghost components, spec function results) are signed unless marked:
	// heights, lengths and counters are Go ints; uint32 fields (bits, nonce) are only compared for equality
	return !specUnsigned[s]
}

var specUnsigned = map[*Sym]bool{}

func (e *Env) sortOfTypeName(n string) (types.Type, string) {
	if t, ok := basicByName[n]; ok {
		return t, leavesOf(t)[0].Sort
	}
	switch n {
	case "Int", "Ref":
		return nil, SInt
	case "Bool":
		return nil, SBool
	case "Str":
		return nil, SStr
	case "Time":
		return nil, STime
	}
	if a, ok := e.x.sp.SortAlias[n]; ok {
		return nil, e.x.sp.resolveSort(a)
	}
	if strings.HasPrefix(n, "(") {
		return nil, e.x.sp.resolveSort(n)
	}
	panic("unknown type/sort name in contract: " + n)
}

func (e *Env) evalBool(n *Node) *Term {
	s := e.eval(n, nil)
	if len(s.L) != 1 || s.L[0].Sort != SBool {
		panic(fmt.Sprintf("expected a boolean expression: %s", nodeStr(n)))
	}
	return s.L[0]
}

func nodeStr(n *Node) string {
	if n == nil {
		return "<nil>"
	}
	if n.Src != "" {
		return n.Src
	}
	switch n.Op {
	case "id", "int":
		return n.Name
	case "str":
		return fmt.Sprintf("%q", n.Name)
	case "bin":
		return "(" + nodeStr(n.Args[0]) + " " + n.Name + " " + nodeStr(n.Args[1]) + ")"
	case "un":
		return n.Name + nodeStr(n.Args[0])
	case "field":
		return nodeStr(n.Args[0]) + "." + n.Name
	case "call":
		var as []string
		for _, a := range n.Args {
			as = append(as, nodeStr(a))
		}
		return n.Name + "(" + strings.Join(as, ", ") + ")"
	case "index":
		return nodeStr(n.Args[0]) + "[" + nodeStr(n.Args[1]) + "]"
	case "old":
		return "old(" + nodeStr(n.Args[0]) + ")"
	}
	return n.Op
}

func isLit(n *Node) bool {
	if n.Op == "int" {
		return true
	}
	if n.Op == "un" && n.Name == "-" && n.Args[0].Op == "int" {
		return true
	}
	if n.Op == "id" && n.Name == "nil" {
		return true
	}
	return false
}

func litVal(n *Node) *big.Int {
	neg := false
	if n.Op == "un" {
		neg = true
		n = n.Args[0]
	}
	v, ok := new(big.Int).SetString(n.Name, 0)
	if !ok {
		panic("bad integer literal " + n.Name)
	}
	if neg {
		v.Neg(v)
	}
	return v
}

// eval evaluates n; hint (may be nil) gives the shape a literal should adapt to.
func (e *Env) eval(n *Node, hint *Sym) *Sym {
	switch n.Op {
	case "int":
		return e.lit(litVal(n), hint)
	case "str":
		return scalar(types.Typ[types.String], e.x.vc.strLit(n.Name))
	case "raw":
		// `sort:term` raw SMT escape
		j := strings.LastIndex(n.Name, "::")
		if j < 0 {
			panic("raw term needs `term :: sort`")
		}
		return &Sym{L: []*Term{mkRaw(strings.TrimSpace(n.Name[:j]), e.x.sp.resolveSort(strings.TrimSpace(n.Name[j+2:])))}}
	case "id":
		return e.ident(n.Name, hint)
	case "old":
		if e.old == nil {
			panic("old() is not available here")
		}
		ne := *e
		ne.st = e.old
		return ne.eval(n.Args[0], hint)
	case "un":
		return e.unary(n, hint)
	case "bin":
		return e.binary(n, hint)
	case "field":
		return e.fieldAccess(n)
	case "index":
		return e.index(n)
	case "call":
		return e.call(n, hint)
	case "forall", "exists":
		return e.quant(n)
	}
	panic("cannot evaluate " + n.Op)
}

// rf reifies a pointer to a slice element so that it can be compared as a value.
func (e *Env) rf(s *Sym) *Sym {
	if s.LV != nil && s.LV.Root == RElem && kindOf(s.LV.RootT) == KStruct && dualTypes[typeName(s.LV.RootT)] {
		return e.x.reify(s)
	}
	return s
}

func (e *Env) macro(name string) *LetDef {
	if e.lets != nil {
		if ld, ok := e.lets[name]; ok {
			return ld
		}
	}
	if ld, ok := e.x.sp.Macros[name]; ok {
		return ld
	}
	return nil
}

func (e *Env) lit(v *big.Int, hint *Sym) *Sym {
	if hint != nil && len(hint.L) == 1 {
		h := hint.L[0]
		if h.isBV() {
			out := scalar(hint.T, mkBV(v, h.W))
			if hint.T == nil && specUnsigned[hint] {
				specUnsigned[out] = true
			}
			return out
		}
		if h.Sort == SInt {
			return &Sym{T: hint.T, L: []*Term{mkInt(v)}}
		}
	}
	return &Sym{L: []*Term{mkInt(v)}}
}

func (e *Env) ident(name string, hint *Sym) *Sym {
	switch name {
	case "true":
		return scalar(types.Typ[types.Bool], tTrue)
	case "false":
		return scalar(types.Typ[types.Bool], tFalse)
	case "nil":
		if hint != nil {
			out := &Sym{T: hint.T}
			for _, l := range hint.L {
				out.L = append(out.L, zeroOfSort(l.Sort))
			}
			return out
		}
		return &Sym{L: []*Term{mkInt64(0)}}
	}
	if ln, ok := e.litVars[name]; ok {
		return e.eval(ln, hint)
	}
	if v, ok := e.vars[name]; ok {
		return v
	}
	if ln := e.macro(name); ln != nil && len(ln.Params) == 0 {
		if e.depth > 20 {
			panic("recursive let " + name)
		}
		ne := *e
		ne.depth++
		return ne.eval(ln.Expr, hint)
	}
	if e.locals != nil {
		if v, ok := e.locals(name); ok {
			return v
		}
	}
	// ghost record or variable
	if rec, ok := e.x.sp.Records[name]; ok {
		out := &Sym{}
		for _, f := range rec.Fields {
			out.L = append(out.L, e.x.hp.ghostGet(e.st, name+"."+f.Name))
		}
		recOf[out] = rec
		return out
	}
	for _, g := range e.x.sp.Ghosts {
		if g.Name == name {
			return &Sym{L: []*Term{e.x.hp.ghostGet(e.st, name)}}
		}
	}
	if fn, ok := e.x.sp.Fns[name]; ok && len(fn.Args) == 0 {
		e.x.useFn(name)
		return &Sym{L: []*Term{mkRaw(name, fn.Ret)}}
	}
	panic("unknown identifier in contract: " + name)
}

var recOf = map[*Sym]*RecType{}

func (e *Env) unary(n *Node, hint *Sym) *Sym {
	if n.Name == "-" && n.Args[0].Op == "int" {
		return e.lit(litVal(n), hint)
	}
	x := e.eval(n.Args[0], hint)
	switch n.Name {
	case "!":
		return scalar(types.Typ[types.Bool], mkNot(x.term()))
	case "-":
		t := x.term()
		if t.isBV() {
			return scalar(x.T, app(t.Sort, "bvneg", t))
		}
		return &Sym{T: x.T, L: []*Term{app(SInt, "-", t)}}
	case "^":
		t := x.term()
		return scalar(x.T, app(t.Sort, "bvnot", t))
	case "*":
		p, ok := x.T.Underlying().(*types.Pointer)
		if !ok {
			panic("dereference of non-pointer in contract: " + nodeStr(n))
		}
		if kindOf(p.Elem()) == KBig && x.LV == nil {
			return &Sym{T: p.Elem(), L: []*Term{mkSelect(e.x.bigHeap(e.st), x.term())}}
		}
		return e.x.hp.load(e.st, lvalOfPtr(x, p.Elem()))
	}
	panic("unary " + n.Name)
}

func (e *Env) binary(n *Node, hint *Sym) *Sym {
	op := n.Name
	boolT := types.Typ[types.Bool]
	switch op {
	case "&&":
		return scalar(boolT, mkAnd(e.evalBool(n.Args[0]), e.evalBool(n.Args[1])))
	case "||":
		return scalar(boolT, mkOr(e.evalBool(n.Args[0]), e.evalBool(n.Args[1])))
	case "==>":
		return scalar(boolT, mkImp(e.evalBool(n.Args[0]), e.evalBool(n.Args[1])))
	case "<==>":
		return scalar(boolT, mkEq(e.evalBool(n.Args[0]), e.evalBool(n.Args[1])))
	}
	var a, b *Sym
	isShift := op == "<<" || op == ">>"
	switch {
	case isShift:
		a = e.eval(n.Args[0], hint)
		b = e.eval(n.Args[1], &Sym{T: types.Typ[types.Uint64], L: []*Term{mkBVu(0, 64)}})
	case isLit(n.Args[0]) && !isLit(n.Args[1]):
		b = e.rf(e.eval(n.Args[1], hint))
		a = e.eval(n.Args[0], b)
	case isLit(n.Args[0]) && isLit(n.Args[1]):
		a = e.eval(n.Args[0], hint)
		b = e.eval(n.Args[1], hint)
	default:
		a = e.rf(e.eval(n.Args[0], hint))
		b = e.rf(e.eval(n.Args[1], a))
	}
	switch op {
	case "==", "!=":
		var r *Term
		if a.LV != nil && a.LV.Root == RElem {
			a = e.x.reify(a)
		}
		if b.LV != nil && b.LV.Root == RElem {
			b = e.x.reify(b)
		}
		if len(a.L) != len(b.L) {
			// slice compared with nil literal etc.
			if len(b.L) == 1 && b.L[0].Lit != nil && b.L[0].Lit.Sign() == 0 {
				r = mkEq(a.L[0], mkInt64(0))
			} else if len(a.L) == 1 && a.L[0].Lit != nil && a.L[0].Lit.Sign() == 0 {
				r = mkEq(b.L[0], mkInt64(0))
			} else {
				panic("comparison of differently shaped values: " + nodeStr(n))
			}
		} else {
			a, b = e.unifyNum(a, b, n)
			r = eqSym(a, b)
		}
		if op == "!=" {
			r = mkNot(r)
		}
		return scalar(boolT, r)
	}
	a, b = e.unifyNum(a, b, n)
	x, y := a.term(), b.term()
	sg := isSigned(a)
	if a.T == nil && b.T != nil {
		sg = isSigned(b)
	}
	resT := a.T
	if resT == nil {
		resT = b.T
	}
	mk := func(t *Term) *Sym {
		out := &Sym{T: resT, L: []*Term{t}}
		if resT == nil && !sg {
			specUnsigned[out] = true
		}
		return out
	}
	if x.isBV() {
		switch op {
		case "<", "<=", ">", ">=":
			m := map[string]string{"<": "lt", "<=": "le", ">": "gt", ">=": "ge"}[op]
			p := "bvu"
			if sg {
				p = "bvs"
			}
			return scalar(boolT, bvCmp(p+m, x, y))
		case "+":
			return mk(bvBin("bvadd", x, y))
		case "-":
			return mk(bvBin("bvsub", x, y))
		case "*":
			return mk(bvBin("bvmul", x, y))
		case "&":
			return mk(bvBin("bvand", x, y))
		case "|":
			return mk(bvBin("bvor", x, y))
		case "^":
			return mk(bvBin("bvxor", x, y))
		case "&^":
			return mk(bvBin("bvand", x, app(y.Sort, "bvnot", y)))
		case "/":
			if sg {
				return mk(app(x.Sort, "bvsdiv", x, y))
			}
			return mk(app(x.Sort, "bvudiv", x, y))
		case "%":
			if sg {
				return mk(app(x.Sort, "bvsrem", x, y))
			}
			return mk(app(x.Sort, "bvurem", x, y))
		case "<<", ">>":
			return mk(bvShift(op, x, y, sg))
		}
	}
	if x.Sort == SInt {
		switch op {
		case "<", "<=", ">", ">=":
			return scalar(boolT, app(SBool, op, x, y))
		case "+", "-", "*":
			if x.Lit != nil && y.Lit != nil {
				r := new(big.Int)
				switch op {
				case "+":
					r.Add(x.Lit, y.Lit)
				case "-":
					r.Sub(x.Lit, y.Lit)
				case "*":
					r.Mul(x.Lit, y.Lit)
				}
				return mk(mkInt(r))
			}
			return mk(app(SInt, op, x, y))
		case "/":
			return mk(app(SInt, "div", x, y))
		case "%":
			return mk(app(SInt, "mod", x, y))
		}
	}
	if x.Sort == SStr && op == "+" {
		return scalar(types.Typ[types.String], app(SStr, "scat", x, y))
	}
	panic(fmt.Sprintf("operator %s not applicable to sort %s in %s", op, x.Sort, nodeStr(n)))
}

// unifyNum re-types an Int literal against a bit-vector operand evaluated later.
func (e *Env) unifyNum(a, b *Sym, n *Node) (*Sym, *Sym) {
	if len(a.L) == 1 && len(b.L) == 1 && a.L[0].Sort != b.L[0].Sort {
		if a.L[0].Sort == SInt && a.L[0].Lit != nil && b.L[0].isBV() {
			return e.lit(a.L[0].Lit, b), b
		}
		if b.L[0].Sort == SInt && b.L[0].Lit != nil && a.L[0].isBV() {
			return a, e.lit(b.L[0].Lit, a)
		}
		if a.L[0].isBV() && b.L[0].isBV() && (n.Name == "<<" || n.Name == ">>") {
			return a, b
		}
		panic(fmt.Sprintf("sort mismatch in %s: %s vs %s", nodeStr(n), a.L[0].Sort, b.L[0].Sort))
	}
	return a, b
}

func (e *Env) fieldAccess(n *Node) *Sym {
	x := e.eval(n.Args[0], nil)
	if rec, ok := recOf[x]; ok {
		for i, f := range rec.Fields {
			if f.Name == n.Name {
				return &Sym{L: []*Term{x.L[i]}}
			}
		}
		panic("ghost record " + rec.Name + " has no component " + n.Name)
	}
	if x.T == nil {
		panic("field access on untyped value: " + nodeStr(n))
	}
	t := x.T
	if p, ok := t.Underlying().(*types.Pointer); ok {
		st, ok := p.Elem().Underlying().(*types.Struct)
		if !ok {
			panic("field access through pointer to non-struct: " + nodeStr(n))
		}
		idx, path := findField(st, n.Name)
		if idx < 0 {
			panic("no field " + n.Name + " in " + typeName(p.Elem()))
		}
		lv := lvalOfPtr(x, p.Elem())
		cur := p.Elem()
		for _, i := range path {
			if pp, ok := cur.Underlying().(*types.Pointer); ok {
				// embedded pointer: load it and continue
				pv := e.x.hp.load(e.st, lv)
				cur = pp.Elem()
				lv = lvalOfPtr(pv, cur)
			}
			lv = lv.fieldOf(i)
			cur = lv.T
		}
		return e.x.hp.load(e.st, lv)
	}
	if st, ok := t.Underlying().(*types.Struct); ok {
		_, path := findField(st, n.Name)
		if path == nil {
			panic("no field " + n.Name + " in " + typeName(t))
		}
		cur := x
		for _, i := range path {
			if pp, ok := cur.T.Underlying().(*types.Pointer); ok {
				cur = e.x.hp.load(e.st, lvalOfPtr(cur, pp.Elem()))
			}
			cur = cur.field(i)
		}
		return cur
	}
	if tu, ok := t.(*types.Tuple); ok {
		var i int
		fmt.Sscanf(n.Name, "%d", &i)
		if i >= tu.Len() {
			panic("tuple index out of range")
		}
		return x.field(i)
	}
	panic("field access on " + typeName(t) + ": " + nodeStr(n))
}

// findField finds a (possibly promoted) field; returns the index path.
func findField(st *types.Struct, name string) (int, []int) {
	for i := 0; i < st.NumFields(); i++ {
		if st.Field(i).Name() == name {
			return i, []int{i}
		}
	}
	for i := 0; i < st.NumFields(); i++ {
		f := st.Field(i)
		if !f.Embedded() {
			continue
		}
		ft := f.Type()
		if p, ok := ft.Underlying().(*types.Pointer); ok {
			ft = p.Elem()
		}
		if inner, ok := ft.Underlying().(*types.Struct); ok {
			if j, path := findField(inner, name); j >= 0 {
				return i, append([]int{i}, path...)
			}
		}
	}
	return -1, nil
}

func (e *Env) index(n *Node) *Sym {
	x := e.eval(n.Args[0], nil)
	if x.T != nil {
		switch kindOf(x.T) {
		case KSlice:
			el := x.T.Underlying().(*types.Slice).Elem()
			i := e.eval(n.Args[1], &Sym{T: types.Typ[types.Int], L: []*Term{mkBVu(0, 64)}}).term()
			lv := &LVal{Root: RElem, Ref: x.L[0], Idx: elemIndex(x.L[1], i), RootT: el, T: el}
			return e.x.hp.load(e.st, lv)
		case KArr:
			el := x.T.Underlying().(*types.Array).Elem()
			i := e.eval(n.Args[1], &Sym{T: types.Typ[types.Int], L: []*Term{mkBVu(0, 64)}}).term()
			out := &Sym{T: el}
			for _, l := range x.L {
				out.L = append(out.L, mkSelect(l, i))
			}
			return out
		case KPtr:
			if a, ok := x.T.Underlying().(*types.Pointer).Elem().Underlying().(*types.Array); ok && x.LV == nil {
				i := e.eval(n.Args[1], &Sym{T: types.Typ[types.Int], L: []*Term{mkBVu(0, 64)}}).term()
				lv := &LVal{Root: RElem, Ref: x.term(), Idx: i, RootT: a.Elem(), T: a.Elem()}
				return e.x.hp.load(e.st, lv)
			}
		}
	}
	// SMT array
	a := x.term()
	if !strings.HasPrefix(a.Sort, "(Array ") {
		panic("indexing a non-array in contract: " + nodeStr(n))
	}
	is := arrayIdxSort(a.Sort)
	i := e.eval(n.Args[1], &Sym{L: []*Term{mkRaw("?", is)}})
	return &Sym{L: []*Term{mkSelect(a, i.term())}}
}

func (e *Env) quant(n *Node) *Sym {
	ne := *e
	ne.vars = map[string]*Sym{}
	for k, v := range e.vars {
		ne.vars[k] = v
	}
	var binds []string
	var guards []*Term
	for _, v := range n.Vars {
		t, srt := e.sortOfTypeName(v.Type)
		e.x.nq++
		nm := fmt.Sprintf("%s!q%d", v.Name, e.x.nq)
		s := &Sym{T: t, L: []*Term{mkRaw(nm, srt)}}
		ne.vars[v.Name] = s
		binds = append(binds, fmt.Sprintf("(%s %s)", nm, srt))
		_ = guards
	}
	body := ne.evalBool(n.Args[0])
	pat := ""
	if len(n.Pats) > 0 {
		var ps []string
		for _, p := range n.Pats {
			var ts []string
			for _, x := range p {
				ts = append(ts, ne.eval(x, nil).term().S)
			}
			ps = append(ps, ":pattern ("+strings.Join(ts, " ")+")")
		}
		pat = strings.Join(ps, " ")
	}
	q := n.Op
	var s string
	if pat != "" {
		s = fmt.Sprintf("(%s (%s) (! %s %s))", q, strings.Join(binds, " "), body.S, pat)
	} else {
		s = fmt.Sprintf("(%s (%s) %s)", q, strings.Join(binds, " "), body.S)
	}
	return scalar(types.Typ[types.Bool], mkRaw(s, SBool))
}

func (e *Env) call(n *Node, hint *Sym) *Sym {
	name := n.Name
	intHint := &Sym{T: types.Typ[types.Int], L: []*Term{mkBVu(0, 64)}}
	if t, ok := basicByName[name]; ok && len(n.Args) == 1 {
		// conversion
		w, _ := intInfo(t)
		x := e.eval(n.Args[0], &Sym{T: t, L: []*Term{zeroOfSort(leavesOf(t)[0].Sort)}})
		if w > 0 && x.term().isBV() {
			return scalar(t, bvResize(x.term(), w, isSigned(x)))
		}
		if w > 0 && x.term().Sort == SInt && x.term().Lit != nil {
			return scalar(t, mkBV(x.term().Lit, w))
		}
		if kindOf(t) == KStr && x.term().Sort == SStr {
			return scalar(t, x.term())
		}
		panic("unsupported conversion in contract: " + nodeStr(n))
	}
	switch name {
	case "len":
		x := e.eval(n.Args[0], nil)
		if x.T != nil && kindOf(x.T) == KSlice {
			return scalar(types.Typ[types.Int], x.L[2])
		}
		if x.T != nil && kindOf(x.T) == KMap {
			return scalar(types.Typ[types.Int], mkSelect(e.x.mapLenHeap(e.st, x.T), x.term()))
		}
		if len(x.L) == 1 && x.L[0].Sort == SStr {
			return scalar(types.Typ[types.Int], app(bvSort(64), "slen", x.L[0]))
		}
		if x.T != nil && kindOf(x.T) == KArr {
			return scalar(types.Typ[types.Int], mkBVu(uint64(x.T.Underlying().(*types.Array).Len()), 64))
		}
		panic("len of unsupported value: " + nodeStr(n))
	case "ite":
		c := e.evalBool(n.Args[0])
		a := e.eval(n.Args[1], hint)
		b := e.eval(n.Args[2], a)
		if isLit(n.Args[1]) && !isLit(n.Args[2]) {
			a = e.eval(n.Args[1], b)
		}
		a, b = e.unifyNum(a, b, n)
		return iteSym(c, a, b)
	case "store":
		a := e.eval(n.Args[0], nil).term()
		i := e.eval(n.Args[1], &Sym{L: []*Term{mkRaw("?", arrayIdxSort(a.Sort))}}).term()
		v := e.eval(n.Args[2], &Sym{L: []*Term{mkRaw("?", arrayElemSort(a.Sort))}}).term()
		return &Sym{L: []*Term{mkStore(a, i, v)}}
	case "select":
		a := e.eval(n.Args[0], nil).term()
		i := e.eval(n.Args[1], &Sym{L: []*Term{mkRaw("?", arrayIdxSort(a.Sort))}}).term()
		return &Sym{L: []*Term{mkSelect(a, i)}}
	case "mapdom", "mapval", "maplen":
		m := e.eval(n.Args[0], nil)
		if m.T == nil || kindOf(m.T) != KMap {
			panic(name + " of non-map")
		}
		dom, val, ln := e.x.mapFams(m.T)
		switch name {
		case "mapdom":
			return &Sym{L: []*Term{mkSelect(e.x.hp.heapGet(e.st, dom[0]), m.term())}}
		case "maplen":
			return scalar(types.Typ[types.Int], mkSelect(e.x.hp.heapGet(e.st, ln), m.term()))
		}
		if len(val) != 1 {
			panic("mapval of aggregate-valued map")
		}
		return &Sym{L: []*Term{mkSelect(e.x.hp.heapGet(e.st, val[0]), m.term())}}
	case "entry_arrays_unchanged":
		// every backing array (of the argument's element type) that existed at function entry is unchanged
		v := e.eval(n.Args[0], nil)
		if v.T == nil || kindOf(v.T) != KSlice || e.old == nil || e.x.ctr0 == nil {
			panic("entry_arrays_unchanged needs a slice expression")
		}
		var cs []*Term
		for _, f := range familiesOf(RElem, v.T.Underlying().(*types.Slice).Elem()) {
			cur, old := e.x.hp.heapGet(e.st, f), e.x.hp.heapGet(e.old, f)
			if cur.S == old.S {
				continue
			}
			cs = append(cs, mkRaw(fmt.Sprintf("(forall ((r!e Int)) (! (=> (<= r!e ctr0) (= (select %s r!e) (select %s r!e))) :pattern ((select %s r!e))))", cur.S, old.S, cur.S), SBool))
		}
		return scalar(types.Typ[types.Bool], mkAnd(cs...))
	case "istypednil":
		// istypednil(x): the interface value x holds a nil pointer (of whatever pointer type)
		v := e.eval(n.Args[0], nil).term()
		return scalar(types.Typ[types.Bool], app(SBool, "isTN", v))
	case "unbox":
		// unbox(x, "T"): the value of (non-pointer, scalar) type T held by the interface value x
		v := e.eval(n.Args[0], nil)
		tn := n.Args[1].Name
		var t types.Type
		if bt, ok := basicByName[tn]; ok {
			t = bt
		} else if m := reByteArr.FindStringSubmatch(tn); m != nil {
			k, _ := strconv.Atoi(m[1])
			t = types.NewArray(types.Universe.Lookup("byte").Type(), int64(k))
		} else {
			t = e.x.typeByName(tn)
		}
		e.x.tid(t)
		return e.x.unboxAs(v.term(), t, e.st)
	case "contents":
		// contents(s): the backing array of slice s as a mathematical array (single-leaf element types);
		// element i of s is contents(s)[offof(s) + i]
		v := e.eval(n.Args[0], nil)
		if v.T == nil || kindOf(v.T) != KSlice {
			panic("contents of a non-slice")
		}
		fs := familiesOf(RElem, v.T.Underlying().(*types.Slice).Elem())
		if len(fs) != 1 {
			panic("contents: element type must be a single scalar")
		}
		return &Sym{L: []*Term{mkSelect(e.x.hp.heapGet(e.st, fs[0]), v.L[0])}}
	case "only_elems_changed":
		// only_elems_changed(s, "Field"[, n]): between the old state and now, the field Field of the
		// struct type pointed to by the elements of slice s changed only in objects that some element
		// s[i] (i < n, default len(s)) points to - a frame for functions that update the rows of a list
		v := e.eval(n.Args[0], nil)
		if v.T == nil || kindOf(v.T) != KSlice || e.old == nil {
			panic("only_elems_changed needs a slice of pointers and an old state")
		}
		elT := v.T.Underlying().(*types.Slice).Elem()
		pt, ok := elT.Underlying().(*types.Pointer)
		if !ok {
			panic("only_elems_changed: elements must be pointers")
		}
		stT, ok := pt.Elem().Underlying().(*types.Struct)
		if !ok {
			panic("only_elems_changed: elements must point to structs")
		}
		fi, _ := findField(stT, n.Args[1].Name)
		if fi < 0 {
			panic("only_elems_changed: no field " + n.Args[1].Name)
		}
		bound := v.L[2]
		if len(n.Args) > 2 {
			bound = e.eval(n.Args[2], &Sym{T: types.Typ[types.Int], L: []*Term{mkBVu(0, 64)}}).term()
		}
		off, cnt, _ := fieldRange(pt.Elem(), fi)
		e.x.nq++
		iv := mkRaw(fmt.Sprintf("i!oe%d", e.x.nq), bvSort(64))
		ef := familiesOf(RElem, elT)[0]
		elem := mkSelect(mkSelect(e.x.hp.heapGet(e.st, ef), v.L[0]), elemIndex(v.L[1], iv))
		inRange := mkAnd(bvCmp("bvsle", mkBVu(0, 64), iv), bvCmp("bvslt", iv, bound))
		var cs []*Term
		for _, f := range familiesOf(RStruct, pt.Elem())[off : off+cnt] {
			cur, old := e.x.hp.heapGet(e.st, f), e.x.hp.heapGet(e.old, f)
			if cur.S == old.S {
				continue
			}
			cs = append(cs, mkRaw(fmt.Sprintf("(forall ((r!e Int)) (! (=> (not (= (select %s r!e) (select %s r!e))) (exists ((%s (_ BitVec 64))) (and %s (= %s r!e)))) :pattern ((select %s r!e))))", cur.S, old.S, iv.S, inRange.S, elem.S, cur.S), SBool))
		}
		if dualTypes[typeName(pt.Elem())] {
			e.x.vc.theories["eref"] = true
			for _, f := range familiesOf(RElem, pt.Elem())[off : off+cnt] {
				cur, old := e.x.hp.heapGet(e.st, f), e.x.hp.heapGet(e.old, f)
				if cur.S == old.S {
					continue
				}
				cs = append(cs, mkRaw(fmt.Sprintf("(forall ((r!e Int)) (! (=> (not (= (select %s r!e) (select %s r!e))) (exists ((%s (_ BitVec 64))) (and %s (< %s (- 1000000000)) (= (eArr %s) r!e)))) :pattern ((select %s r!e))))", cur.S, old.S, iv.S, inRange.S, elem.S, elem.S, cur.S), SBool))
			}
		}
		return scalar(types.Typ[types.Bool], mkAnd(cs...))
	case "others_unchanged":
		// others_unchanged(p): every object of p's struct type that existed at function entry,
		// except *p itself, has all its fields as at entry (loop-invariant frame for `p.f = ...` loops)
		v := e.eval(n.Args[0], nil)
		pt, ok := v.T.Underlying().(*types.Pointer)
		if !ok || e.old == nil || e.x.ctr0 == nil {
			panic("others_unchanged needs a pointer-to-struct expression")
		}
		var cs []*Term
		for _, f := range familiesOf(RStruct, pt.Elem()) {
			cur, old := e.x.hp.heapGet(e.st, f), e.x.hp.heapGet(e.old, f)
			if cur.S == old.S {
				continue
			}
			cs = append(cs, mkRaw(fmt.Sprintf("(forall ((r!e Int)) (! (=> (and (<= r!e ctr0) (not (= r!e %s))) (= (select %s r!e) (select %s r!e))) :pattern ((select %s r!e))))", v.term().S, cur.S, old.S, cur.S), SBool))
		}
		return scalar(types.Typ[types.Bool], mkAnd(cs...))
	case "entry_objects_unchanged":
		// every object of the argument's struct type that existed at function entry has all its
		// fields as at entry (a heap frame usable as loop invariant)
		v := e.eval(n.Args[0], nil)
		pt, ok := v.T.Underlying().(*types.Pointer)
		if !ok || e.old == nil || e.x.ctr0 == nil {
			panic("entry_objects_unchanged needs a pointer-to-struct expression")
		}
		var cs []*Term
		for _, f := range familiesOf(RStruct, pt.Elem()) {
			cur, old := e.x.hp.heapGet(e.st, f), e.x.hp.heapGet(e.old, f)
			if cur.S == old.S {
				continue
			}
			cs = append(cs, mkRaw(fmt.Sprintf("(forall ((r!e Int)) (! (=> (<= r!e ctr0) (= (select %s r!e) (select %s r!e))) :pattern ((select %s r!e))))", cur.S, old.S, cur.S), SBool))
		}
		return scalar(types.Typ[types.Bool], mkAnd(cs...))
	case "bigval":
		x := e.eval(n.Args[0], nil)
		if x.T != nil && kindOf(x.T) == KBig {
			return &Sym{L: []*Term{x.term()}}
		}
		return &Sym{L: []*Term{mkSelect(e.x.bigHeap(e.st), x.term())}}
	case "fresh":
		x := e.eval(n.Args[0], nil)
		if e.ctrPre == nil {
			panic("fresh() is not available here")
		}
		return scalar(types.Typ[types.Bool], app(SBool, ">", x.L[0], e.ctrPre))
	case "allocated":
		x := e.eval(n.Args[0], nil)
		return scalar(types.Typ[types.Bool], mkAnd(app(SBool, "<", mkInt64(0), x.L[0]), app(SBool, "<=", x.L[0], e.st.ctr)))
	case "arrof", "offof":
		v := e.eval(n.Args[0], nil)
		if v.T == nil || kindOf(v.T) != KSlice {
			panic(name + " of non-slice")
		}
		if name == "arrof" {
			return &Sym{L: []*Term{v.L[0]}}
		}
		return scalar(types.Typ[types.Int], v.L[1])
	case "wide":
		v := e.eval(n.Args[0], i64Hint())
		t := v.term()
		if !t.isBV() {
			panic("wide() of non-integer")
		}
		out := &Sym{L: []*Term{bvResize(t, 128, isSigned(v))}}
		return out
	case "global":
		// global("pkg.name"): the address of a package-level variable
		nm := n.Args[0].Name
		i := strings.LastIndex(nm, ".")
		if i < 0 {
			panic("global: need pkg.name")
		}
		pkg, vn := nm[:i], nm[i+1:]
		for _, p := range e.x.ld.prog.AllPackages() {
			pp := p.Pkg.Path()
			if pp == pkg || pp == strings.TrimSuffix(modPrefix, "/")+"/"+pkg {
				if g, ok := p.Members[vn].(*ssa.Global); ok {
					return &Sym{T: g.Type(), L: []*Term{e.x.globalRef(g)}}
				}
			}
		}
		panic("global: no package variable " + nm)
	case "asptr":
		// asptr(x, "pkg.Type"): view the interface/ref value x as a *pkg.Type
		v := e.eval(n.Args[0], nil)
		var t types.Type
		if bt, ok := basicByName[n.Args[1].Name]; ok {
			t = bt
		} else {
			t = e.x.typeByName(n.Args[1].Name)
		}
		pt := types.NewPointer(t)
		// an interface holding the typed nil of *T yields nil, as the type assertion does
		return &Sym{T: pt, L: []*Term{mkIte(mkEq(v.term(), e.x.typedNil(pt)), mkInt64(0), v.term())}}
	case "ifield":
		// ifield(x, "pkg.Type", "Field"): field of the struct value boxed in interface value x
		v := e.eval(n.Args[0], nil)
		t := e.x.typeByName(n.Args[1].Name)
		stT, ok := t.Underlying().(*types.Struct)
		if !ok {
			panic("ifield: not a struct type: " + n.Args[1].Name)
		}
		idx, _ := findField(stT, n.Args[2].Name)
		if idx < 0 {
			panic("ifield: no field " + n.Args[2].Name)
		}
		lv := (&LVal{Root: RStruct, Ref: v.term(), RootT: t, T: t}).fieldOf(idx)
		return e.x.hp.load(e.st, lv)
	case "dyn":
		e.x.vc.declFunGlobal("dyntype", []string{SInt}, SInt)
		x := e.eval(n.Args[0], nil)
		return &Sym{L: []*Term{app(SInt, "dyntype", x.term())}}
	case "typeid":
		return &Sym{L: []*Term{e.x.tidByName(n.Args[0].Name)}}
	case "signed":
		x := e.eval(n.Args[0], hint)
		out := &Sym{L: x.L}
		specSigned[out] = true
		return out
	case "unsigned":
		x := e.eval(n.Args[0], hint)
		out := &Sym{L: x.L}
		specUnsigned[out] = true
		return out
	case "bv2int": // interpreted bridge (use sparingly)
		x := e.eval(n.Args[0], nil)
		return &Sym{L: []*Term{app(SInt, "bv2nat", x.term())}}
	case "cell": // value of a local variable by name (loop invariants), explicit form
		if e.locals != nil {
			if v, ok := e.locals(n.Args[0].Name); ok {
				return v
			}
		}
		panic("no local " + n.Args[0].Name)
	}
	if ld := e.macro(name); ld != nil && len(ld.Params) > 0 {
		{
			if len(ld.Params) != len(n.Args) {
				panic("macro " + name + ": wrong number of arguments")
			}
			if e.depth > 20 {
				panic("recursive let " + name)
			}
			ne := *e
			ne.depth++
			ne.vars = map[string]*Sym{}
			for k, v := range e.vars {
				ne.vars[k] = v
			}
			ne.litVars = map[string]*Node{}
			for k, v := range e.litVars {
				ne.litVars[k] = v
			}
			for i, p := range ld.Params {
				a := n.Args[i]
				delete(ne.litVars, p)
				delete(ne.vars, p)
				if a.Op == "int" || (a.Op == "un" && a.Name == "-" && len(a.Args) == 1 && a.Args[0].Op == "int") {
					ne.litVars[p] = a
					continue
				}
				ne.vars[p] = e.eval(a, nil)
			}
			return ne.eval(ld.Expr, hint)
		}
	}
	fn, ok := e.x.sp.Fns[name]
	if !ok {
		panic("unknown function in contract: " + name)
	}
	e.x.useFn(name)
	var args []*Term
	for _, a := range n.Args {
		var h *Sym
		if len(args) < len(fn.Args) {
			h = &Sym{L: []*Term{mkRaw("?", fn.Args[len(args)])}}
		}
		if a.Op == "id" && a.Name == "nil" {
			h = intHint
			h = &Sym{L: []*Term{mkRaw("?", fn.Args[len(args)])}}
		}
		v := e.eval(a, h)
		if v.LV != nil {
			panic("executor-level pointer passed to spec function " + name)
		}
		args = append(args, v.L...)
	}
	if len(args) != len(fn.Args) {
		panic(fmt.Sprintf("spec function %s expects %d argument leaves, got %d in %s", name, len(fn.Args), len(args), nodeStr(n)))
	}
	for i := range args {
		if args[i].Sort != fn.Args[i] {
			panic(fmt.Sprintf("spec function %s argument %d: expected %s, got %s : %s in %s", name, i, fn.Args[i], args[i].S, args[i].Sort, nodeStr(n)))
		}
	}
	return &Sym{L: []*Term{app(fn.Ret, name, args...)}}
}
