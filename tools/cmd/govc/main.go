package main

import (
	"context"
	"encoding/json"
	"flag"
	"fmt"
	"os"
	"os/exec"
	"path/filepath"
	"sort"
	"strings"
	"sync"
	"sync/atomic"
	"time"
)

type PropSpec struct {
	ID          string   `json:"id"`
	Packages    []string `json:"packages"`
	Functions   []string `json:"functions"`
	Lemmas      []string `json:"lemmas"`
	Structural  []string `json:"structural"`
	NotCovered  []string `json:"not_covered"`
	Assumptions []string `json:"assumptions"`
	Bounded     []string `json:"bounded"`
	Storelab    []string `json:"storelab"` // L0 functions checked (bounded) on real SQLite against reference oracles
	Wirelab     []string `json:"wirelab"`  // assumed wire contracts / top-level codec statement checked (bounded) on the real codec
}

type Result struct {
	FV      *FuncVC
	Obl     *Obligation
	File    string
	Status  string // discharged, failed, trivial, canary-ok, canary-failed
	Solver  string
	Answer  string
	Answers map[string]string
	TimeS   float64
	Model   string
	Retried bool // decided in the second, unloaded pass
}

var solverCmds = map[string]func(file string, timeoutS int) []string{
	"z3-new": func(f string, t int) []string { return []string{"z3-new", fmt.Sprintf("-T:%d", t), f} },
	"z3":     func(f string, t int) []string { return []string{"z3", fmt.Sprintf("-T:%d", t), f} },
	"cvc5":   func(f string, t int) []string { return []string{"cvc5", fmt.Sprintf("--tlimit=%d", t*1000), f} },
}

func firstAnswer(out string) string {
	// a malformed query (undeclared symbol, sort error) is never an answer: the solver would decide a
	// different formula than the one generated
	for _, l := range strings.Split(out, "\n") {
		l = strings.TrimSpace(l)
		if strings.HasPrefix(l, "(error") && !strings.Contains(l, "model is not available") {
			return "error"
		}
	}
	for _, l := range strings.Split(out, "\n") {
		l = strings.TrimSpace(l)
		switch l {
		case "sat", "unsat", "unknown", "timeout":
			return l
		}
	}
	if strings.Contains(out, "error") || strings.Contains(out, "Error") {
		return "error"
	}
	return "unknown"
}

// race runs the solvers on file; returns when one gives a decisive answer (or all finish).
// In thorough mode it waits for all of them.
func race(file string, timeoutS int, waitAll bool) (answers map[string]string, winner string, elapsed float64) {
	type ans struct{ name, a, out string }
	ctx, cancel := context.WithCancel(context.Background())
	defer cancel()
	ch := make(chan ans, 3)
	names := []string{"z3-new", "cvc5", "z3"}
	start := time.Now()
	for _, n := range names {
		go func(n string) {
			args := solverCmds[n](file, timeoutS)
			c, cc := context.WithTimeout(ctx, time.Duration(timeoutS+2)*time.Second)
			defer cc()
			out, _ := exec.CommandContext(c, args[0], args[1:]...).CombinedOutput()
			ch <- ans{n, firstAnswer(string(out)), string(out)}
		}(n)
	}
	answers = map[string]string{}
	var grace <-chan time.Time
	for i := 0; i < len(names); i++ {
		var a ans
		select {
		case a = <-ch:
		case <-grace:
			// cross-check budget used up: the solvers still running are recorded as not finished
			for _, n := range names {
				if _, ok := answers[n]; !ok {
					answers[n] = "timeout"
				}
			}
			elapsed = time.Since(start).Seconds()
			return
		}
		answers[a.name] = a.a
		if (a.a == "unsat" || a.a == "sat") && winner == "" {
			winner = a.name
			if !waitAll {
				break
			}
			// thorough: the other solvers get a bounded time to confirm or contradict the first answer
			g := time.Duration(timeoutS/4) * time.Second
			if g < 10*time.Second {
				g = 10 * time.Second
			}
			grace = time.After(g)
		}
	}
	elapsed = time.Since(start).Seconds()
	return
}

// decide sets the status of an obligation from the solvers' answers.
func decide(r *Result, ans map[string]string, win string, el float64, tier string) {
	r.Answers = ans
	r.Solver = win
	r.TimeS = el
	if win != "" {
		r.Answer = ans[win]
	} else {
		r.Answer = "unknown"
	}
	if r.Obl.Expect == "sat" {
		// canary: fail only if some solver proves the assumptions contradictory
		r.Status = "canary-ok"
		for _, a := range ans {
			if a == "unsat" {
				r.Status = "canary-failed"
			}
		}
		if r.Status == "canary-failed" && r.Obl.PrePrefix > 0 && r.FV != nil {
			// after-call canary: is the path dead already before the call?
			pf := strings.TrimSuffix(r.File, ".smt2") + ".pre.smt2"
			os.WriteFile(pf, []byte(r.FV.VC.renderPre(r.FV.Prelude, r.Obl)), 0o644)
			pans, _, _ := race(pf, 5, false)
			for _, a := range pans {
				if a == "unsat" {
					r.Status = "canary-ok" // dead path: nothing is assumed on it
				}
			}
		}
		return
	}
	hasUnsat, hasSat := false, false
	for _, a := range ans {
		if a == "unsat" {
			hasUnsat = true
		}
		if a == "sat" {
			hasSat = true
		}
	}
	switch {
	case hasUnsat && !(hasSat && tier == "thorough"):
		r.Status = "discharged"
		r.Answer = "unsat"
	default:
		r.Status = "failed"
		if hasSat {
			r.Answer = "sat"
		}
	}
}

func main() {
	if len(os.Args) < 2 {
		fmt.Fprintln(os.Stderr, "usage: govc check|dump ...")
		os.Exit(2)
	}
	switch os.Args[1] {
	case "check":
		os.Exit(cmdCheck(os.Args[2:]))
	case "keys":
		// debug: list function keys of the given packages containing a substring
		ld, err := loadRepo("/repo", os.Args[3:])
		if err != nil {
			fmt.Println(err)
			os.Exit(2)
		}
		for k := range ld.funcs {
			if strings.Contains(k, os.Args[2]) {
				fmt.Println(k)
			}
		}
		os.Exit(0)
	case "replay":
		os.Exit(cmdReplay(os.Args[2:]))
	default:
		fmt.Fprintln(os.Stderr, "unknown command")
		os.Exit(2)
	}
}

type KnownFinding struct {
	Property   string `json:"property"`
	Status     string `json:"status"` // open | fixed
	Obligation string `json:"obligation"`
	What       string `json:"what"`
	Commit     string `json:"commit,omitempty"`
}

func cmdCheck(args []string) int {
	fs := flag.NewFlagSet("check", flag.ExitOnError)
	repo := fs.String("repo", "/repo", "repository root")
	verif := fs.String("verif", "/verif", "verification root")
	prop := fs.String("prop", "", "property id")
	tier := fs.String("tier", "quick", "quick|thorough")
	seed := fs.Int("seed", 0, "seed")
	only := fs.String("only", "", "only functions containing this substring (debug)")
	keep := fs.Bool("keep", false, "keep SMT files of discharged obligations")
	noEvidence := fs.Bool("selftest", false, "self-test run on a scratch copy: no evidence, separate replay dir")
	workSuffix := fs.String("work-suffix", "", "suffix of the work directory")
	_ = keep
	fs.Parse(args)
	start := time.Now()
	var props map[string]*PropSpec
	b, err := os.ReadFile(filepath.Join(*verif, "props.json"))
	if err != nil {
		fmt.Fprintln(os.Stderr, err)
		return 2
	}
	if err := json.Unmarshal(b, &props); err != nil {
		fmt.Fprintln(os.Stderr, "props.json:", err)
		return 2
	}
	ps := props[*prop]
	if ps == nil {
		fmt.Fprintln(os.Stderr, "unknown property", *prop)
		return 2
	}
	ps.ID = *prop
	sp := newSpecs()
	if err := sp.loadSpecDir(filepath.Join(*verif, "spec")); err != nil {
		fmt.Fprintln(os.Stderr, "spec:", err)
		return 2
	}
	if err := sp.loadRepoContracts(*repo); err != nil {
		fmt.Fprintln(os.Stderr, "contracts:", err)
		return 2
	}
	if err := sp.resolveImplements(); err != nil {
		fmt.Fprintln(os.Stderr, "contracts:", err)
		return 2
	}
	ld, err := loadRepo(*repo, ps.Packages)
	rctx = &replayCtx{ld: ld, sp: sp}
	loadS := time.Since(start).Seconds()
	work := filepath.Join(*verif, "work", *prop+*workSuffix)
	os.RemoveAll(work)
	os.MkdirAll(work, 0o755)
	timeoutS := 20
	if *tier == "thorough" {
		timeoutS = 120
	}
	var results []*Result
	var reports []*FuncReport
	var genErrors []string
	if err != nil {
		// the tree does not load (does not compile): nothing can be proved
		genErrors = append(genErrors, "load: "+err.Error())
	} else {
		var fvcs []*FuncVC
		for _, key := range ps.Functions {
			if *only != "" && !strings.Contains(key, *only) {
				continue
			}
			fv := verifyFunction(ld, sp, key)
			fvcs = append(fvcs, fv)
			reports = append(reports, fv.Report)
			if fv.Report.Error != "" {
				genErrors = append(genErrors, key+": "+fv.Report.Error)
			}
		}
		// write obligations
		n := 0
		for _, fv := range fvcs {
			if fv.Report.Error != "" {
				continue
			}
			for _, o := range fv.VC.obls {
				r := &Result{Obl: o, FV: fv}
				results = append(results, r)
				if o.Expect == "trivial" {
					r.Status = "trivial"
					r.Solver = "constant-folding"
					continue
				}
				n++
				r.File = filepath.Join(work, fmt.Sprintf("%04d_%s.smt2", n, sanitize(o.Name)))
				os.WriteFile(r.File, []byte(fv.VC.render(fv.Prelude, o)), 0o644)
			}
		}
		// lemmas
		for _, ln := range ps.Lemmas {
			if *only != "" && !strings.Contains(ln, *only) {
				continue
			}
			lm := sp.Lemmas[ln]
			if lm == nil {
				genErrors = append(genErrors, "unknown lemma "+ln)
				continue
			}
			text, err := sp.theoryText(lm.Uses)
			if err != nil {
				genErrors = append(genErrors, "lemma "+ln+": "+err.Error())
				continue
			}
			o := &Obligation{Name: "lemma/" + ln, Kind: "lemma", Func: "lemma/" + ln, Expect: "unsat", Raw: "; lemma " + ln + "\n(set-logic ALL)\n" + strings.Replace(text, ";;STRDECLS;;\n", (&VC{sp: sp, strLits: map[string]string{}}).strDecls(), 1) + lm.Text + "(check-sat)\n", Info: "lemma " + ln}
			r := &Result{Obl: o}
			n++
			r.File = filepath.Join(work, fmt.Sprintf("%04d_%s.smt2", n, sanitize(o.Name)))
			os.WriteFile(r.File, []byte(o.Raw), 0o644)
			results = append(results, r)
			// canary: the lemma's hypotheses without the negated goal must not be unsat
			co := &Obligation{Name: "lemma/" + ln + "/vacuity", Kind: "vacuity", Func: "lemma/" + ln, Expect: "sat", Raw: "; lemma canary " + ln + "\n(set-logic ALL)\n" + strings.Replace(text, ";;STRDECLS;;\n", (&VC{sp: sp, strLits: map[string]string{}}).strDecls(), 1) + stripLastAssert(lm.Text) + "(check-sat)\n"}
			cr := &Result{Obl: co}
			n++
			cr.File = filepath.Join(work, fmt.Sprintf("%04d_%s.smt2", n, sanitize(co.Name)))
			os.WriteFile(cr.File, []byte(co.Raw), 0o644)
			results = append(results, cr)
		}
	}
	genS := time.Since(start).Seconds() - loadS
	// discharge
	var wg sync.WaitGroup
	var nFailed int32
	sem := make(chan struct{}, 6)
	for _, r := range results {
		if r.File == "" {
			continue
		}
		wg.Add(1)
		go func(r *Result) {
			defer wg.Done()
			sem <- struct{}{}
			defer func() { <-sem }()
			if atomic.LoadInt32(&nFailed) >= 4 && r.Obl.Kind != "vacuity" && os.Getenv("GOVC_NOCAP") == "" {
				// enough violations to report; the remaining obligations are not attempted
				r.Status = "skipped"
				return
			}
			defer func() {
				if r.Status == "failed" || r.Status == "canary-failed" {
					atomic.AddInt32(&nFailed, 1)
				}
			}()
			t := timeoutS
			if r.Obl.Kind == "vacuity" {
				t = 5
			}
			ans, win, el := race(r.File, t, *tier == "thorough" && r.Obl.Kind != "vacuity")
			decide(r, ans, win, el, *tier)
		}(r)
	}
	wg.Wait()
	// An obligation that no solver decided because of a time-out (no `sat` answer) is tried once more,
	// alone and with three times the limit: the first pass runs many solvers at once, and a loaded
	// machine must not turn a slow proof into an alarm. At most 40 obligations are retried, three at a time.
	var again []*Result
	for _, r := range results {
		if r.File == "" || r.Status != "failed" || len(again) >= 40 {
			continue
		}
		timedOut, sat := false, false
		for _, a := range r.Answers {
			if a == "timeout" || a == "unknown" {
				timedOut = true
			}
			if a == "sat" {
				sat = true
			}
		}
		if !timedOut || sat || r.TimeS < float64(timeoutS)-1 {
			continue
		}
		again = append(again, r)
	}
	rsem := make(chan struct{}, 3)
	var rwg sync.WaitGroup
	for _, r := range again {
		rwg.Add(1)
		go func(r *Result) {
			defer rwg.Done()
			rsem <- struct{}{}
			defer func() { <-rsem }()
			ans, win, el := race(r.File, 3*timeoutS, false)
			decide(r, ans, win, r.TimeS+el, *tier)
			r.Retried = true
		}(r)
	}
	rwg.Wait()
	if ld != nil {
		for _, sc := range ps.Structural {
			if sc == "routes" {
				structResults = append(structResults, structuralRoutes(ld)...)
			}
			if sc == "config" {
				structResults = append(structResults, structuralConfig(ld)...)
			}
		}
	}
	slRes := runStorelab(*verif, *repo, ps, *tier, work)
	storelabResults = slRes
	wirelabResults = runWirelab(*verif, *repo, ps, *tier, work)
	return report(*verif, *repo, ps, *tier, *seed, results, reports, genErrors, sp, start, loadS, genS, *noEvidence)
}

type storelabResult struct {
	Lines      []string
	Mismatches []string
	Error      string
	N          int
	WallS      float64
}

var storelabResults *storelabResult
var structResults []StructResult

// runStorelab: bounded conformance of trusted L0 functions on the real SQLite stack (DESIGN 3.9).
func runStorelab(verif, repo string, ps *PropSpec, tier, work string) *storelabResult {
	if len(ps.Storelab) == 0 {
		return nil
	}
	res := &storelabResult{N: 4}
	if tier == "thorough" {
		res.N = 5
	}
	start := time.Now()
	ov := map[string]map[string]string{"Replace": {filepath.Join(repo, "database", "zz_storelab_test.go"): filepath.Join(verif, "storelab", "storelab_test.go.txt"), filepath.Join(repo, "database", "zz_importlab_test.go"): filepath.Join(verif, "storelab", "importlab_test.go.txt")}}
	ob, _ := json.Marshal(ov)
	ovf := filepath.Join(work, "storelab_overlay.json")
	os.WriteFile(ovf, ob, 0o644)
	ctx, cancel := context.WithTimeout(context.Background(), 1500*time.Second)
	defer cancel()
	cmd := exec.CommandContext(ctx, "go", "test", "-overlay", ovf, "-vet=off", "-count=1", "-v", "-timeout", "1400s", "-run", "^TestStorelab$", "./database/")
	cmd.Dir = repo
	cmd.Env = append(os.Environ(), "GOFLAGS=-mod=mod", "GOPROXY=off", fmt.Sprintf("STORELAB_N=%d", res.N), "STORELAB_SCHEMA="+filepath.Join(repo, "database", "migrations"), "STORELAB_FUNCS="+strings.Join(ps.Storelab, ","))
	out, _ := cmd.CombinedOutput()
	seen := map[string]bool{}
	for _, l := range strings.Split(string(out), "\n") {
		l = strings.TrimSpace(l)
		if strings.HasPrefix(l, "STORELAB-MISMATCH ") {
			res.Mismatches = append(res.Mismatches, l)
		} else if strings.HasPrefix(l, "STORELAB func=") {
			res.Lines = append(res.Lines, l)
			f := strings.Fields(l)[1]
			seen[strings.TrimPrefix(f, "func=")] = true
		}
	}
	for _, f := range ps.Storelab {
		if !seen[f] {
			res.Error = "storelab produced no result for " + f + ": " + tail(string(out), 600)
		}
	}
	res.WallS = time.Since(start).Seconds()
	return res
}

var wirelabResults *storelabResult

// runWirelab: bounded conformance of the assumed contracts of internal/wire and a bounded cross-check of
// the codec round trip, on the real code (wirelab/wirelab_test.go.txt, injected with -overlay).
func runWirelab(verif, repo string, ps *PropSpec, tier, work string) *storelabResult {
	if len(ps.Wirelab) == 0 {
		return nil
	}
	res := &storelabResult{N: 1}
	if tier == "thorough" {
		res.N = 6
	}
	start := time.Now()
	ov := map[string]map[string]string{"Replace": {filepath.Join(repo, "internal", "wire", "zz_wirelab_test.go"): filepath.Join(verif, "wirelab", "wirelab_test.go.txt")}}
	ob, _ := json.Marshal(ov)
	ovf := filepath.Join(work, "wirelab_overlay.json")
	os.WriteFile(ovf, ob, 0o644)
	ctx, cancel := context.WithTimeout(context.Background(), 900*time.Second)
	defer cancel()
	cmd := exec.CommandContext(ctx, "go", "test", "-overlay", ovf, "-vet=off", "-count=1", "-v", "-timeout", "800s", "-run", "^TestWirelab$", "./internal/wire/")
	cmd.Dir = repo
	cmd.Env = append(os.Environ(), "GOFLAGS=-mod=mod", "GOPROXY=off", fmt.Sprintf("WIRELAB_N=%d", res.N), "WIRELAB_FUNCS="+strings.Join(ps.Wirelab, ","))
	out, _ := cmd.CombinedOutput()
	seen := map[string]bool{}
	for _, l := range strings.Split(string(out), "\n") {
		l = strings.TrimSpace(l)
		if strings.HasPrefix(l, "WIRELAB-MISMATCH ") {
			res.Mismatches = append(res.Mismatches, l)
		} else if strings.HasPrefix(l, "WIRELAB func=") {
			res.Lines = append(res.Lines, l)
			seen[strings.TrimPrefix(strings.Fields(l)[1], "func=")] = true
		}
	}
	for _, f := range ps.Wirelab {
		if !seen[f] {
			res.Error = "wirelab produced no result for " + f + ": " + tail(string(out), 600)
		}
	}
	res.WallS = time.Since(start).Seconds()
	return res
}

func stripLastAssert(text string) string {
	xs := readSexprs(text)
	last := -1
	for i, x := range xs {
		if x.list != nil && len(x.list) > 0 && x.list[0].atom == "assert" {
			last = i
		}
	}
	var b strings.Builder
	for i, x := range xs {
		if i == last {
			continue
		}
		b.WriteString(x.String())
		b.WriteString("\n")
	}
	return b.String()
}

func report(verif, repo string, ps *PropSpec, tier string, seed int, results []*Result, reports []*FuncReport, genErrors []string, sp *Specs, start time.Time, loadS, genS float64, noEvidence bool) int {
	known := []KnownFinding{}
	if b, err := os.ReadFile(filepath.Join(verif, "known_findings.json")); err == nil {
		json.Unmarshal(b, &known)
	}
	bySolver := map[string]int{}
	obligations, discharged := 0, 0
	var solverTime float64
	var failed []*Result
	var samples []map[string]interface{}
	canaries, canaryFailed := 0, 0
	skipped := 0
	for _, r := range results {
		if r.Obl.Kind == "vacuity" {
			canaries++
			if r.Status == "canary-failed" {
				canaryFailed++
				failed = append(failed, r)
			}
			continue
		}
		obligations++
		solverTime += r.TimeS
		switch r.Status {
		case "discharged", "trivial":
			discharged++
			bySolver[r.Solver]++
		case "skipped":
			skipped++
		default:
			failed = append(failed, r)
		}
		if len(samples) < 6 && r.Status == "discharged" && (r.Obl.Kind == "post" || r.Obl.Kind == "lemma" || r.Obl.Kind == "preserve") {
			samples = append(samples, map[string]interface{}{"obligation": r.Obl.Name, "kind": r.Obl.Kind, "at": r.Obl.Pos, "clause": r.Obl.Info, "answer": r.Answer, "solver": r.Solver, "time_s": round3(r.TimeS)})
		}
	}
	violations := 0
	knownHits := 0
	replayDir := filepath.Join(verif, "replays", ps.ID)
	if noEvidence {
		replayDir = filepath.Join(verif, "work", "selftest-replays", ps.ID)
	}
	os.MkdirAll(replayDir, 0o755)
	// clear stale replays
	if old, _ := filepath.Glob(filepath.Join(replayDir, "*.json")); old != nil {
		for _, f := range old {
			os.Remove(f)
		}
	}
	var lines []string
	emitViolation := func(name string, payload map[string]interface{}, confirmed bool) {
		// known finding?
		for _, k := range known {
			if k.Property == ps.ID && k.Status == "open" && k.Obligation == stripPath(name) {
				lines = append(lines, fmt.Sprintf("KNOWN-FINDING: property=%s %s (%s)", ps.ID, k.What, k.Obligation))
				knownHits++
				return
			}
		}
		violations++
		file := filepath.Join(replayDir, sanitize(name)+".json")
		b, _ := json.MarshalIndent(payload, "", " ")
		os.WriteFile(file, b, 0o644)
		suffix := ""
		if !confirmed {
			suffix = " no-failing-input-found"
		}
		lines = append(lines, fmt.Sprintf("VIOLATION property=%s replay=%s obligation=%s%s", ps.ID, file, name, suffix))
	}
	var structEv []map[string]interface{}
	for _, sr := range structResults {
		obligations++
		if sr.OK {
			discharged++
			bySolver["structural (SSA provenance, no solver)"]++
		} else {
			emitViolation("structural/"+sr.Name, map[string]interface{}{"obligation": "structural/" + sr.Name, "kind": "structural", "reason": sr.Detail}, false)
		}
		structEv = append(structEv, map[string]interface{}{"obligation": "structural/" + sr.Name, "holds": sr.OK, "detail": sr.Detail})
	}
	var boundedEv []string
	boundedEv = append(boundedEv, ps.Bounded...)
	if sl := storelabResults; sl != nil {
		for _, l := range sl.Lines {
			boundedEv = append(boundedEv, "BOUNDED (real SQLite, reference oracle written from the L0 contract): "+l)
		}
		if sl.Error != "" {
			emitViolation("storelab/run", map[string]interface{}{"obligation": "storelab/run", "reason": "the bounded conformance run did not complete", "detail": sl.Error}, false)
		}
		byFunc := map[string][]string{}
		for _, m := range sl.Mismatches {
			f := strings.TrimPrefix(strings.Fields(m)[1], "func=")
			byFunc[f] = append(byFunc[f], m)
		}
		for f, ms := range byFunc {
			emitViolation("storelab/"+f, map[string]interface{}{"obligation": "storelab/" + f, "kind": "bounded-conformance", "reason": "the real function, run on a real SQLite database, disagrees with the oracle of its assumed (trusted) contract on a concrete table: the proofs that assume this contract no longer apply", "failing_cases": ms, "replay_verdict": "confirmed-on-real-code (the mismatch is an execution of the real function)"}, true)
		}
	}
	if wl := wirelabResults; wl != nil {
		for _, l := range wl.Lines {
			boundedEv = append(boundedEv, "BOUNDED (real codec, oracle written from the assumed contract / the property statement): "+l)
		}
		if wl.Error != "" {
			emitViolation("wirelab/run", map[string]interface{}{"obligation": "wirelab/run", "reason": "the bounded conformance run did not complete", "detail": wl.Error}, false)
		}
		byFunc := map[string][]string{}
		for _, m := range wl.Mismatches {
			f := strings.TrimPrefix(strings.Fields(m)[1], "func=")
			byFunc[f] = append(byFunc[f], m)
		}
		for f, ms := range byFunc {
			emitViolation("wirelab/"+f, map[string]interface{}{"obligation": "wirelab/" + f, "kind": "bounded-conformance", "reason": "the real codec, executed on concrete inputs, disagrees with the oracle written from an assumed (trusted) contract of internal/wire or from the statement of the property: the proofs that assume this contract no longer apply", "failing_cases": ms, "replay_verdict": "confirmed-on-real-code (the mismatch is an execution of the real function)"}, true)
		}
	}
	for _, e := range genErrors {
		name := "generation/" + strings.SplitN(e, ":", 2)[0]
		emitViolation(name, map[string]interface{}{"obligation": name, "reason": "the function is no longer inside the verified subset or its contract no longer applies; no obligation can be discharged", "detail": e}, false)
	}
	nSearch := 0
	for _, r := range failed {
		payload := map[string]interface{}{
			"obligation": r.Obl.Name, "kind": r.Obl.Kind, "function": r.Obl.Func, "at": r.Obl.Pos, "clause": r.Obl.Info,
			"answers": r.Answers, "smt_file": r.File, "status": r.Status,
		}
		confirmed := false
		if r.Status == "canary-failed" {
			payload["reason"] = "assumptions (requires + assumed contracts) are contradictory: every obligation of this function would hold vacuously"
		} else if r.Answer == "sat" {
			m, conf := extractAndReplay(verif, repo, ps, r, sp)
			for k, v := range m {
				payload[k] = v
			}
			confirmed = conf
		} else {
			payload["reason"] = "no solver discharged the obligation within the time limit (unknown/timeout); it is discharged on the unchanged tree"
			if nSearch < 3 {
				nSearch++
				if conf, m := searchOnRealCode(verif, repo, r, seed); len(m) > 0 {
					for k, v := range m {
						payload[k] = v
					}
					confirmed = conf
				}
			}
		}
		emitViolation(r.Obl.Name, payload, confirmed)
	}
	// evidence
	trusted := []string{"go/ssa (x/tools v0.29.0) as the semantics of the Go source", "SMT solvers z3 5.1.0 / z3 4.8.12 / cvc5 1.0.3", "govc VC generator"}
	var fns []string
	abstr := map[string]bool{}
	unmod := map[string]bool{}
	assumed := map[string]bool{}
	inl := map[string]bool{}
	for _, rp := range reports {
		fns = append(fns, rp.Key)
		for _, a := range rp.Abstracted {
			abstr[a] = true
		}
		for _, a := range rp.Unmodelled {
			unmod[a] = true
		}
		for _, a := range rp.ContractUsed {
			assumed[a] = true
		}
		for _, a := range rp.Inlined {
			inl[a] = true
		}
	}
	verifiedSet := map[string]bool{}
	for _, f := range ps.Functions {
		verifiedSet[f] = true
	}
	var assumedOnly []string
	for a := range assumed {
		parts := strings.SplitN(a, " ", 2)
		if len(parts) == 2 && (parts[0] == "func") && verifiedSet[parts[1]] {
			continue // proved in this same check
		}
		assumedOnly = append(assumedOnly, a)
	}
	sort.Strings(assumedOnly)
	for _, a := range assumedOnly {
		trusted = append(trusted, "assumed contract: "+a)
	}
	ev := map[string]interface{}{
		"property_id": ps.ID,
		"tier":        tier,
		"seed":        seed,
		"level":       "proof",
		"wall_s":      round3(time.Since(start).Seconds()),
		"violations":  violations,
		"assumptions": append([]string{"GOARCH=amd64 (int = 64 bit); machine integers are bit-vectors (no mathematical-integer abstraction)", "sequential execution of each verified function; mutexes are no-ops; spawned goroutines are not interleaved", "append always reallocates; slice capacity is not modelled", "typed-nil-in-interface is excluded by an obligation at each conversion"}, ps.Assumptions...),
		"coverage": map[string]interface{}{
			"obligations":              obligations,
			"discharged":               discharged,
			"checker_cmd":              fmt.Sprintf("/verif/check %s %s", ps.ID, tier),
			"trusted_base":             trusted,
			"functions_under_contract": fns,
			"function_reports":         reports,
			"lemmas":                   ps.Lemmas,
			"by_solver":                bySolver,
			"solver_time_s":            round3(solverTime),
			"load_s":                   round3(loadS),
			"generate_s":               round3(genS),
			"not_attempted_after_failures": skipped,
			"vacuity_canaries":         canaries,
			"vacuity_canaries_failed":  canaryFailed,
			"abstractions":             keysOf(abstr),
			"unmodelled_calls":         keysOf(unmod),
			"inlined_real_bodies":      keysOf(inl),
			"not_covered":              ps.NotCovered,
			"bounded":                  boundedEv,
			"structural":               structEv,
			"known_findings_matched":   knownHits,
			"samples":                  samples,
			"contract_files":           relFiles(sp.Files, verif, repo),
		},
	}
	if !noEvidence {
		os.MkdirAll(filepath.Join(verif, "evidence"), 0o755)
		b, _ := json.MarshalIndent(ev, "", " ")
		os.WriteFile(filepath.Join(verif, "evidence", ps.ID+".json"), b, 0o644)
	}
	fmt.Printf("property %s tier %s: %d obligations, %d discharged, %d failed, %d vacuity canaries (%d failed), %.1fs (load %.1fs, gen %.1fs)\n", ps.ID, tier, obligations, discharged, len(failed), canaries, canaryFailed, time.Since(start).Seconds(), loadS, genS)
	sort.SliceStable(results, func(i, j int) bool { return results[i].TimeS > results[j].TimeS })
	for i := 0; i < 3 && i < len(results); i++ {
		if results[i].TimeS > 1.0 {
			fmt.Printf("  slow: %s %.1fs (%s)\n", results[i].Obl.Name, results[i].TimeS, results[i].Solver)
		}
	}
	for _, rp := range reports {
		for _, w := range rp.Warnings {
			fmt.Printf("  warning %s: %s\n", rp.Key, w)
		}
		for _, u := range rp.Unmodelled {
			fmt.Printf("  unmodelled call in %s: %s\n", rp.Key, u)
		}
	}
	for _, l := range lines {
		fmt.Println(l)
	}
	if violations > 0 {
		return 1
	}
	return 0
}

func stripPath(n string) string { return n }

func round3(f float64) float64 { return float64(int(f*1000+0.5)) / 1000 }

func keysOf(m map[string]bool) []string {
	out := []string{}
	for k := range m {
		out = append(out, k)
	}
	sort.Strings(out)
	return out
}

func relFiles(fs []string, verif, repo string) []string {
	var out []string
	for _, f := range fs {
		out = append(out, f)
	}
	return out
}

func cmdReplay(args []string) int {
	if len(args) < 1 {
		fmt.Fprintln(os.Stderr, "usage: govc replay <file>")
		return 2
	}
	b, err := os.ReadFile(args[0])
	if err != nil {
		fmt.Fprintln(os.Stderr, err)
		return 2
	}
	fmt.Println(string(b))
	return 0
}
