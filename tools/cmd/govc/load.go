package main

import (
	"fmt"
	"go/token"
	"os"
	"strings"

	"golang.org/x/tools/go/packages"
	"golang.org/x/tools/go/ssa"
	"golang.org/x/tools/go/ssa/ssautil"
)

type Loaded struct {
	repo  string
	fset  *token.FileSet
	prog  *ssa.Program
	pkgs  []*packages.Package
	spkgs []*ssa.Package
	funcs map[string]*ssa.Function
	written map[*ssa.Global]bool
	duals   map[string]bool
}

func loadRepo(repo string, patterns []string) (*Loaded, error) {
	cfg := &packages.Config{
		Mode:       packages.LoadAllSyntax,
		Dir:        repo,
		BuildFlags: []string{"-tags=verif"},
		Env:        append(os.Environ(), "GOFLAGS=-mod=mod", "GOPROXY=off"),
	}
	pkgs, err := packages.Load(cfg, patterns...)
	if err != nil {
		return nil, err
	}
	var errs []string
	packages.Visit(pkgs, nil, func(p *packages.Package) {
		for _, e := range p.Errors {
			errs = append(errs, e.Error())
		}
	})
	if len(errs) > 0 {
		if len(errs) > 5 {
			errs = errs[:5]
		}
		return nil, fmt.Errorf("package load errors: %s", strings.Join(errs, "; "))
	}
	prog, spkgs := ssautil.AllPackages(pkgs, ssa.NaiveForm|ssa.GlobalDebug|ssa.InstantiateGenerics)
	prog.Build()
	ld := &Loaded{repo: repo, fset: prog.Fset, prog: prog, pkgs: pkgs, spkgs: spkgs, funcs: map[string]*ssa.Function{}}
	for fn := range ssautil.AllFunctions(prog) {
		if fn.Pkg == nil && fn.Object() == nil && fn.Parent() == nil {
			continue
		}
		ld.funcs[fnKeyOf(fn)] = fn
	}
	return ld, nil
}
