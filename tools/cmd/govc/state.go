package main

import (
	"fmt"
	"go/types"
	"strings"
)

type State struct {
	cells map[*cellID]*Sym
	heap  map[string]*Term // family -> array term
	fams  map[string]Family
	ghost map[string]*Term
	ctr   *Term
}

func (s *State) clone() *State {
	n := &State{cells: make(map[*cellID]*Sym, len(s.cells)), heap: make(map[string]*Term, len(s.heap)), fams: s.fams, ghost: make(map[string]*Term, len(s.ghost)), ctr: s.ctr}
	for k, v := range s.cells {
		n.cells[k] = v
	}
	for k, v := range s.heap {
		n.heap[k] = v
	}
	for k, v := range s.ghost {
		n.ghost[k] = v
	}
	return n
}

type Heaper struct {
	vc     *VC
	sp     *Specs
	reify  func(*Sym) *Sym
	isDual func(types.Type) bool
}

// ---- interior pointers ----
// A pointer to a non-struct field of a heap struct that has to become a value (it is stored, merged
// with another pointer, put into a slice) is fptr(obj, K): K identifies the (struct type, leaf offset)
// site. The sites a function needs are discovered by a first generation pass (reify registers them);
// generation is repeated until no new site appears, so that every range assumption already allows
// the interior pointers created later.
type fptrSite struct {
	StructT types.Type
	Off     int
	T       types.Type
}

var fptrSites []fptrSite
var fptrNew bool

func fptrSitesOf(t types.Type) []int {
	var out []int
	for i, s := range fptrSites {
		if types.Identical(s.T, t) {
			out = append(out, i+1)
		}
	}
	return out
}

func fptrSiteK(structT types.Type, off int, t types.Type) int {
	for i, s := range fptrSites {
		if types.Identical(s.StructT, structT) && s.Off == off && types.Identical(s.T, t) {
			return i + 1
		}
	}
	fptrSites = append(fptrSites, fptrSite{structT, off, t})
	fptrNew = true
	return len(fptrSites)
}

// boxAlternatives: the struct-field lvalues a boxed pointer r of element type t may designate.
func (h *Heaper) boxAlternatives(lv *LVal) (conds []*Term, lvs []*LVal) {
	if lv.Root != RBox {
		return
	}
	ks := fptrSitesOf(lv.RootT)
	if len(ks) == 0 {
		return
	}
	h.vc.theories["fptr"] = true
	isF := isElemTerm(lv.Ref)
	obj := app(SInt, "fObj", lv.Ref)
	for _, k := range ks {
		s := fptrSites[k-1]
		root := RStruct
		if dualTypes[typeName(s.StructT)] {
			root = RDual
		}
		conds = append(conds, mkAnd(isF, mkEq(app(SInt, "fK", lv.Ref), mkInt64(int64(k)))))
		lvs = append(lvs, &LVal{Root: root, Ref: obj, RootT: s.StructT, Off: s.Off, T: s.T})
	}
	return
}

func isElemTerm(p *Term) *Term { return app(SBool, "<", p, mkInt64(-1000000000)) }

func (h *Heaper) heapGet(st *State, f Family) *Term {
	if t, ok := st.heap[f.Name]; ok {
		return t
	}
	st.fams[f.Name] = f
	fresh := !h.vc.declared["H0."+f.Name]
	t := h.vc.declGlobal("H0."+f.Name, f.Sort)
	if fresh {
		h.closedness(t, f, "ctr0")
	}
	st.heap[f.Name] = t
	return t
}

// closedness: in objects that exist when the array constant comes into being (refs <= ctr), every
// stored reference points to an object that exists too (refs are never forged, allocation is monotone).
func (h *Heaper) closedness(arr *Term, f Family, ctr string) {
	if f.Leaf.T == nil {
		if strings.HasPrefix(f.Name, "map.") && strings.HasSuffix(f.Name, ".len") {
			// the number of entries of a map is non-negative and bounded
			sel := fmt.Sprintf("(select %s r!c)", arr.S)
			h.vc.assertGlobalOrLine(fmt.Sprintf("(forall ((r!c Int)) (! (and (bvsle (_ bv0 64) %s) (bvslt %s (_ bv1099511627776 64))) :pattern (%s)))", sel, sel, sel), ctr == "ctr0")
		}
		return
	}
	if f.KeySort != "" && kindOf(f.Leaf.T) == KSlice {
		return
	}
	if kindOf(f.Leaf.T) == KSlice && (strings.HasSuffix(f.Leaf.Path, ".len") || strings.HasSuffix(f.Leaf.Path, ".off")) {
		// slice headers stored in existing objects have non-negative, bounded length and offset
		sel := fmt.Sprintf("(select %s r!c)", arr.S)
		bind := "((r!c Int))"
		if f.Root == RElem {
			sel = fmt.Sprintf("(select (select %s r!c) i!c)", arr.S)
			bind = "((r!c Int) (i!c (_ BitVec 64)))"
		}
		h.vc.assertGlobalOrLine(fmt.Sprintf("(forall %s (! (=> (<= r!c %s) (and (bvsle (_ bv0 64) %s) (bvslt %s (_ bv1099511627776 64)))) :pattern (%s)))", bind, ctr, sel, sel, sel), ctr == "ctr0")
		return
	}
	isRef := false
	switch kindOf(f.Leaf.T) {
	case KPtr, KMap:
		isRef = true
	case KSlice:
		isRef = strings.HasSuffix(f.Leaf.Path, ".arr")
	}
	if !isRef || f.Leaf.Sort != SInt {
		return
	}
	if f.Root == RElem {
		v := fmt.Sprintf("(select (select %s r!c) i!c)", arr.S)
		h.vc.assertGlobalOrLine(fmt.Sprintf("(forall ((r!c Int) (i!c (_ BitVec 64))) (! (=> (<= r!c %s) %s) :pattern (%s)))", ctr, refRange(f.Leaf.T, v, ctr), v), ctr == "ctr0")
		return
	}
	if f.KeySort != "" {
		// values of a map
		v := fmt.Sprintf("(select (select %s r!c) k!c)", arr.S)
		h.vc.assertGlobalOrLine(fmt.Sprintf("(forall ((r!c Int) (k!c %s)) (! (=> (<= r!c %s) %s) :pattern (%s)))", f.KeySort, ctr, refRange(f.Leaf.T, v, ctr), v), ctr == "ctr0")
		return
	}
	v := fmt.Sprintf("(select %s r!c)", arr.S)
	h.vc.assertGlobalOrLine(fmt.Sprintf("(forall ((r!c Int)) (! (=> (<= r!c %s) %s) :pattern (%s)))", ctr, refRange(f.Leaf.T, v, ctr), v), ctr == "ctr0")
}

// refRange: the values a stored reference of Go type t can take: an allocated object (or nil), or -
// for pointers to struct types whose slice elements are addressed - an element reference.
func refRange(t types.Type, v, ctr string) string {
	base := fmt.Sprintf("(and (<= 0 %s) (<= %s %s))", v, v, ctr)
	if p, ok := t.Underlying().(*types.Pointer); ok {
		if ks := fptrSitesOf(p.Elem()); len(ks) > 0 {
			var alts []string
			for _, k := range ks {
				alts = append(alts, fmt.Sprintf("(= (fK %s) %d)", v, k))
			}
			alt := alts[0]
			if len(alts) > 1 {
				alt = "(or " + strings.Join(alts, " ") + ")"
			}
			return fmt.Sprintf("(or %s (and (< %s (- 1000000000)) (= %s (fptr (fObj %s) (fK %s))) (not (= (fObj %s) 0)) (<= (fObj %s) %s) %s))", base, v, v, v, v, v, v, ctr, alt)
		}
	}
	if p, ok := t.Underlying().(*types.Pointer); ok && kindOf(p.Elem()) == KStruct && dualTypes[typeName(p.Elem())] {
		return fmt.Sprintf("(or %s (< %s (- 1000000000)))", base, v)
	}
	return base
}

func (h *Heaper) heapSet(st *State, f Family, t *Term) {
	st.fams[f.Name] = f
	st.heap[f.Name] = h.vc.name("H."+f.Name, t)
}

func (h *Heaper) ghostGet(st *State, name string) *Term {
	if t, ok := st.ghost[name]; ok {
		return t
	}
	for _, g := range h.sp.Ghosts {
		if g.Name == name {
			t := h.vc.declGlobal("G0."+name, g.Sort)
			st.ghost[name] = t
			return t
		}
	}
	panic("unknown ghost variable " + name)
}

// loadRoot returns the leaves [off, off+n) of the root object of lv.
func (h *Heaper) loadLeaves(st *State, lv *LVal, off, n int) []*Term {
	switch lv.Root {
	case RCell:
		v, ok := st.cells[lv.Cell]
		if !ok {
			panic("load from dead cell " + lv.Cell.name)
		}
		return v.L[off : off+n]
	case RStruct, RBox:
		fams := familiesOf(lv.Root, lv.RootT)
		out := make([]*Term, n)
		for i := 0; i < n; i++ {
			out[i] = mkSelect(h.heapGet(st, fams[off+i]), lv.Ref)
		}
		conds, alts := h.boxAlternatives(lv)
		for j := range alts {
			av := h.loadLeaves(st, alts[j], alts[j].Off+off, n)
			for i := 0; i < n; i++ {
				out[i] = mkIte(conds[j], av[i], out[i])
			}
		}
		return out
	case RElem:
		fams := familiesOf(RElem, lv.RootT)
		out := make([]*Term, n)
		for i := 0; i < n; i++ {
			out[i] = mkSelect(mkSelect(h.heapGet(st, fams[off+i]), lv.Ref), lv.Idx)
		}
		return out
	case RDual:
		h.vc.theories["eref"] = true
		sf := familiesOf(RStruct, lv.RootT)
		ef := familiesOf(RElem, lv.RootT)
		out := make([]*Term, n)
		ie := isElemTerm(lv.Ref)
		for i := 0; i < n; i++ {
			a := mkSelect(mkSelect(h.heapGet(st, ef[off+i]), app(SInt, "eArr", lv.Ref)), app(bvSort(64), "eIdx", lv.Ref))
			b := mkSelect(h.heapGet(st, sf[off+i]), lv.Ref)
			out[i] = mkIte(ie, a, b)
		}
		return out
	}
	panic("loadLeaves")
}

func (h *Heaper) storeLeaves(st *State, lv *LVal, off int, vals []*Term) {
	switch lv.Root {
	case RCell:
		v, ok := st.cells[lv.Cell]
		if !ok {
			panic("store to dead cell " + lv.Cell.name)
		}
		nv := &Sym{T: v.T, L: append([]*Term{}, v.L...)}
		copy(nv.L[off:], vals)
		st.cells[lv.Cell] = nv
	case RStruct, RBox:
		fams := familiesOf(lv.Root, lv.RootT)
		conds, alts := h.boxAlternatives(lv)
		for j := range alts {
			cur := h.loadLeaves(st, alts[j], alts[j].Off+off, len(vals))
			nv := make([]*Term, len(vals))
			for i := range vals {
				nv[i] = mkIte(conds[j], vals[i], cur[i])
			}
			h.storeLeaves(st, alts[j], alts[j].Off+off, nv)
		}
		for i, x := range vals {
			f := fams[off+i]
			if len(alts) > 0 {
				x = mkIte(isElemTerm(lv.Ref), mkSelect(h.heapGet(st, f), lv.Ref), x)
			}
			h.heapSet(st, f, mkStore(h.heapGet(st, f), lv.Ref, x))
		}
	case RElem:
		fams := familiesOf(RElem, lv.RootT)
		for i, x := range vals {
			f := fams[off+i]
			whole := h.heapGet(st, f)
			inner := mkStore(mkSelect(whole, lv.Ref), lv.Idx, x)
			h.heapSet(st, f, mkStore(whole, lv.Ref, inner))
		}
	case RDual:
		h.vc.theories["eref"] = true
		sf := familiesOf(RStruct, lv.RootT)
		ef := familiesOf(RElem, lv.RootT)
		ie := isElemTerm(lv.Ref)
		ea, ei := app(SInt, "eArr", lv.Ref), app(bvSort(64), "eIdx", lv.Ref)
		for i, x := range vals {
			f := ef[off+i]
			whole := h.heapGet(st, f)
			inner := mkStore(mkSelect(whole, ea), ei, x)
			h.heapSet(st, f, mkIte(ie, mkStore(whole, ea, inner), whole))
			g := sf[off+i]
			cur := h.heapGet(st, g)
			h.heapSet(st, g, mkIte(ie, cur, mkStore(cur, lv.Ref, x)))
		}
	}
}

func (h *Heaper) load(st *State, lv *LVal) *Sym {
	if lv.Root == RCell && lv.Off == 0 {
		if c, ok := st.cells[lv.Cell]; ok && c.LV != nil {
			return c
		}
	}
	n := len(leavesOf(lv.T))
	ls := h.loadLeaves(st, lv, lv.Off, n)
	if lv.Sub != nil {
		out := &Sym{T: lv.SubT}
		for _, l := range ls {
			out.L = append(out.L, mkSelect(l, lv.Sub))
		}
		return out
	}
	if lv.Byte != nil {
		// byte i of a 256-bit hash: byte 0 is the least significant
		sh := bvBin("bvmul", bvResize(lv.Byte, 256, false), mkBVu(8, 256))
		return scalar(types.Typ[types.Uint8], bvExtract(app(bvSort(256), "bvlshr", ls[0], sh), 7, 0))
	}
	return &Sym{T: lv.T, L: append([]*Term{}, ls...)}
}

func (h *Heaper) store(st *State, lv *LVal, v *Sym) {
	if v.LV != nil {
		if lv.Root == RCell && lv.Off == 0 && len(leavesOf(lv.T)) == 1 {
			// a local cell holding an executor-level pointer
			c := st.cells[lv.Cell]
			st.cells[lv.Cell] = &Sym{T: c.T, LV: v.LV}
			return
		}
		if h.reify == nil {
			panic("executor-level pointer escapes into memory: " + v.LV.String())
		}
		v = h.reify(v)
	}
	n := len(leavesOf(lv.T))
	if lv.Sub != nil {
		cur := h.loadLeaves(st, lv, lv.Off, n)
		nv := make([]*Term, n)
		for i := range cur {
			nv[i] = mkStore(cur[i], lv.Sub, v.L[i])
		}
		h.storeLeaves(st, lv, lv.Off, nv)
		return
	}
	if lv.Byte != nil {
		cur := h.loadLeaves(st, lv, lv.Off, 1)[0]
		sh := bvBin("bvmul", bvResize(lv.Byte, 256, false), mkBVu(8, 256))
		m := app(bvSort(256), "bvshl", mkBVu(255, 256), sh)
		cleared := bvBin("bvand", cur, app(bvSort(256), "bvnot", m))
		val := app(bvSort(256), "bvshl", bvResize(v.term(), 256, false), sh)
		h.storeLeaves(st, lv, lv.Off, []*Term{bvBin("bvor", cleared, val)})
		return
	}
	if len(v.L) != n {
		panic(fmt.Sprintf("store: shape mismatch: %d leaves into %s (%d)", len(v.L), typeName(lv.T), n))
	}
	if lv.Root == RCell {
		if c, ok := st.cells[lv.Cell]; ok && c.LV != nil {
			// overwrite an executor pointer cell with a plain value
			st.cells[lv.Cell] = &Sym{T: c.T, L: append([]*Term{}, v.L...)}
			return
		}
	}
	h.storeLeaves(st, lv, lv.Off, v.L)
}

// lvalOfPtr interprets a pointer-typed Sym as an lvalue designating its pointee.
var dualTypes = map[string]bool{}

func lvalOfPtr(p *Sym, elemT types.Type) *LVal {
	if p.LV != nil {
		return p.LV
	}
	r := p.term()
	switch kindOf(elemT) {
	case KStruct:
		if dualTypes[typeName(elemT)] {
			return &LVal{Root: RDual, Ref: r, RootT: elemT, T: elemT}
		}
		return &LVal{Root: RStruct, Ref: r, RootT: elemT, T: elemT}
	default:
		return &LVal{Root: RBox, Ref: r, RootT: elemT, T: elemT}
	}
}

// wellTyped returns the assumptions that hold of any Go value of type t held in leaves ls
// (slice lengths are non-negative, refs are allocated).
func wellTyped(t types.Type, ls []*Term, ctr *Term) []*Term {
	var out []*Term
	i := 0
	var walk func(t types.Type)
	walk = func(t types.Type) {
		switch kindOf(t) {
		case KStruct:
			st := t.Underlying().(*types.Struct)
			for j := 0; j < st.NumFields(); j++ {
				walk(st.Field(j).Type())
			}
		case KTuple:
			tu := t.Underlying().(*types.Tuple)
			for j := 0; j < tu.Len(); j++ {
				walk(tu.At(j).Type())
			}
		case KSlice:
			arr, off, ln := ls[i], ls[i+1], ls[i+2]
			out = append(out, app(SBool, "<=", mkInt64(0), arr))
			if ctr != nil {
				out = append(out, app(SBool, "<=", arr, ctr))
			}
			out = append(out, bvCmp("bvsle", mkBVu(0, 64), off), bvCmp("bvsle", mkBVu(0, 64), ln))
			out = append(out, bvCmp("bvslt", ln, mkBVu(1<<40, 64)), bvCmp("bvslt", off, mkBVu(1<<40, 64)))
			out = append(out, mkImp(mkEq(arr, mkInt64(0)), mkEq(ln, mkBVu(0, 64))))
			i += 3
		case KPtr, KMap:
			if ctr != nil {
				out = append(out, mkRaw(refRange(t, ls[i].S, ctr.S), SBool))
			} else {
				out = append(out, mkRaw(refRange(t, ls[i].S, "1000000000000"), SBool))
			}
			i++
		case KArr:
			i += len(leavesOf(t))
		case KFunc:
			// a function value is nil, a named function (negative address) or a closure object
			if ctr != nil {
				out = append(out, app(SBool, "<=", ls[i], ctr))
			}
			i++
		default:
			i++
		}
	}
	walk(t)
	return out
}

func describeType(t types.Type) string {
	return strings.TrimPrefix(typeName(t), "*")
}
