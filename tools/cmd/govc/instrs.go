package main

import (
	"math/big"
	"fmt"
	"go/token"
	"go/types"
	"regexp"
	"strconv"

	"golang.org/x/tools/go/ssa"
)

var rePlus = regexp.MustCompile(`^\(\+ (\S+) (\d+)\)$`)

func bumpRef(ctr *Term) *Term {
	if m := rePlus.FindStringSubmatch(ctr.S); m != nil {
		k, _ := strconv.Atoi(m[2])
		return mkRaw(fmt.Sprintf("(+ %s %d)", m[1], k+1), SInt)
	}
	return mkRaw(fmt.Sprintf("(+ %s 1)", ctr.S), SInt)
}

func i64Hint() *Sym { return &Sym{T: types.Typ[types.Int], L: []*Term{mkBVu(0, 64)}} }

func (x *Exec) toIdx(v *Sym) *Term {
	w, sg := intInfo(v.T)
	if w == 0 {
		panic("index of non-integer type")
	}
	return bvResize(v.term(), 64, sg)
}

func (x *Exec) execInstr(fr *Frame, in ssa.Instruction, reach *Term, st *State) *Term {
	defer func() {
		if r := recover(); r != nil {
			if s, ok := r.(string); ok && len(s) > 0 && s[0] == '@' {
				panic(r)
			}
			panic(fmt.Sprintf("@%s: %s: %v", x.pos(in.Pos()), in.String(), r))
		}
	}()
	switch in := in.(type) {
	case *ssa.DebugRef:
	case *ssa.Alloc:
		x.doAlloc(fr, in, st)
	case *ssa.Store:
		p := x.get(fr, in.Addr)
		el := in.Addr.Type().Underlying().(*types.Pointer).Elem()
		x.nilCheck(fr, p, reach, in.Pos(), "store through pointer")
		v := x.get(fr, in.Val)
		if v.LV == nil {
			v = x.vc.nameSym("st", v)
		}
		x.storePtr(st, p, el, v)
	case *ssa.UnOp:
		x.doUnOp(fr, in, reach, st)
	case *ssa.BinOp:
		fr.vals[in] = x.vc.nameSym(in.Name(), x.doBinOp(fr, in, reach))
	case *ssa.Convert:
		fr.vals[in] = x.doConvert(fr, in)
	case *ssa.ChangeType:
		v := x.get(fr, in.X)
		if v.LV != nil {
			fr.vals[in] = &Sym{T: in.Type(), LV: v.LV}
		} else {
			if len(v.L) != len(leavesOf(in.Type())) {
				panic("changetype between differently shaped types")
			}
			fr.vals[in] = &Sym{T: in.Type(), L: v.L}
		}
	case *ssa.ChangeInterface:
		v := x.get(fr, in.X)
		fr.vals[in] = &Sym{T: in.Type(), L: v.L}
	case *ssa.MakeInterface:
		fr.vals[in] = x.doMakeInterface(fr, in, reach, st)
	case *ssa.TypeAssert:
		x.doTypeAssert(fr, in, reach, st)
	case *ssa.Select:
		x.doSelect(fr, in, reach, st)
	case *ssa.Extract:
		fr.vals[in] = x.get(fr, in.Tuple).field(in.Index)
	case *ssa.FieldAddr:
		p := x.get(fr, in.X)
		stT := in.X.Type().Underlying().(*types.Pointer).Elem()
		x.nilCheck(fr, p, reach, in.Pos(), "field access through pointer")
		lv := lvalOfPtr(p, stT).fieldOf(in.Field)
		fr.vals[in] = &Sym{T: in.Type(), LV: lv}
	case *ssa.Field:
		fr.vals[in] = x.get(fr, in.X).field(in.Field)
	case *ssa.IndexAddr:
		x.doIndexAddr(fr, in, reach, st)
	case *ssa.Index:
		x.doIndex(fr, in, reach, st)
	case *ssa.Slice:
		x.doSlice(fr, in, reach, st)
	case *ssa.MakeSlice:
		x.doMakeSlice(fr, in, reach, st)
	case *ssa.MakeMap:
		x.doMakeMap(fr, in, st)
	case *ssa.MakeChan:
		// a channel is an opaque fresh reference (its buffer and blocking behaviour are not modelled)
		fr.vals[in] = scalar(in.Type(), x.newRef(st))
	case *ssa.MapUpdate:
		x.doMapUpdate(fr, in, reach, st)
	case *ssa.Lookup:
		x.doLookup(fr, in, reach, st)
	case *ssa.Range:
		x.doRange(fr, in, st)
	case *ssa.Next:
		x.doNext(fr, in, reach, st)
	case *ssa.MakeClosure:
		x.doMakeClosure(fr, in, st)
	case *ssa.Phi:
		x.doPhi(fr, in)
	case *ssa.Call:
		return x.doCall(fr, in, in.Common(), reach, st)
	case *ssa.Go:
		x.doGo(fr, in, reach, st)
	case *ssa.Defer:
		x.doDefer(fr, in, reach, st)
	case *ssa.RunDefers:
		x.doRunDefers(fr, in, reach, st)
	default:
		panic(fmt.Sprintf("unsupported instruction %T", in))
	}
	return reach
}

func (x *Exec) doAlloc(fr *Frame, in *ssa.Alloc, st *State) {
	el := in.Type().Underlying().(*types.Pointer).Elem()
	fr.allocSeq = append(fr.allocSeq, in)
	if !in.Heap {
		id := fr.cells[in]
		if id == nil {
			id = &cellID{name: fmt.Sprintf("%s.%s", in.Name(), in.Comment), t: el}
			fr.cells[in] = id
		}
		st.cells[id] = zeroSym(el)
		fr.vals[in] = &Sym{T: in.Type(), LV: &LVal{Root: RCell, Cell: id, RootT: el, T: el}}
		return
	}
	r := x.newRef(st)
	p := scalar(in.Type(), r)
	x.storePtr(st, p, el, zeroSym(el))
	fr.vals[in] = p
}

func (x *Exec) doUnOp(fr *Frame, in *ssa.UnOp, reach *Term, st *State) {
	v := x.get(fr, in.X)
	switch in.Op {
	case token.MUL:
		el := in.X.Type().Underlying().(*types.Pointer).Elem()
		x.nilCheck(fr, v, reach, in.Pos(), "load through pointer")
		r := x.loadPtr(st, v, el)
		if r.LV == nil {
			r = x.vc.nameSym(in.Name(), r)
			if v.LV == nil || v.LV.Root != RCell {
				for _, a := range wellTyped(el, r.L, st.ctr) {
					x.vc.assume(reach, a)
				}
			}
		}
		fr.vals[in] = r
	case token.NOT:
		fr.vals[in] = scalar(in.Type(), mkNot(v.term()))
	case token.SUB:
		t := v.term()
		if t.isBV() {
			fr.vals[in] = scalar(in.Type(), bvBin("bvsub", mkBVu(0, t.W), t))
		} else {
			fr.vals[in] = scalar(in.Type(), x.vc.fresh("neg", t.Sort))
		}
	case token.XOR:
		t := v.term()
		fr.vals[in] = scalar(in.Type(), app(t.Sort, "bvnot", t))
	default:
		panic("unsupported unary operator " + in.Op.String())
	}
}

func (x *Exec) doBinOp(fr *Frame, in *ssa.BinOp, reach *Term) *Sym {
	a, b := x.get(fr, in.X), x.get(fr, in.Y)
	rt := in.Type()
	k := kindOf(in.X.Type())
	switch in.Op {
	case token.EQL, token.NEQ:
		var r *Term
		if k == KSlice || kindOf(in.Y.Type()) == KSlice {
			// only comparison with nil is legal
			s := a
			if kindOf(in.X.Type()) != KSlice {
				s = b
			}
			r = mkEq(s.L[0], mkInt64(0))
		} else if k == KFloat {
			r = x.vc.fresh("fcmp", SBool)
		} else {
			if (a.LV != nil) != (b.LV != nil) || (a.LV != nil && b.LV != nil && a.LV.Root == RElem) {
				if a.LV != nil && a.LV.Root == RElem && dualTypes[typeName(a.LV.RootT)] {
					a = x.reify(a)
				}
				if b.LV != nil && b.LV.Root == RElem && dualTypes[typeName(b.LV.RootT)] {
					b = x.reify(b)
				}
			}
			r = eqSym(a, b)
			// `p == &T{...}`: an object whose only use is this comparison is distinct from every other value
			if privateAlloc(in.X, in) != privateAlloc(in.Y, in) {
				r = tFalse
			}
		}
		if in.Op == token.NEQ {
			r = mkNot(r)
		}
		return scalar(rt, r)
	}
	switch k {
	case KInt:
		w, sg := intInfo(in.X.Type())
		xa, xb := a.term(), b.term()
		switch in.Op {
		case token.ADD:
			return scalar(rt, bvBin("bvadd", xa, xb))
		case token.SUB:
			return scalar(rt, bvBin("bvsub", xa, xb))
		case token.MUL:
			return scalar(rt, bvBin("bvmul", xa, xb))
		case token.AND:
			return scalar(rt, bvBin("bvand", xa, xb))
		case token.OR:
			return scalar(rt, bvBin("bvor", xa, xb))
		case token.XOR:
			return scalar(rt, bvBin("bvxor", xa, xb))
		case token.AND_NOT:
			return scalar(rt, bvBin("bvand", xa, app(xb.Sort, "bvnot", xb)))
		case token.QUO, token.REM:
			x.vc.oblige("div", fmt.Sprintf("div#%d", x.vc.ord("div")), reach, mkNot(mkEq(xb, mkBVu(0, w))), x.pos(in.Pos()), "division by zero")
			op := map[bool]map[token.Token]string{true: {token.QUO: "bvsdiv", token.REM: "bvsrem"}, false: {token.QUO: "bvudiv", token.REM: "bvurem"}}[sg][in.Op]
			return scalar(rt, app(xa.Sort, op, xa, xb))
		case token.SHL, token.SHR:
			_, ysg := intInfo(in.Y.Type())
			if ysg && xb.Lit == nil {
				x.vc.oblige("shift", fmt.Sprintf("shift#%d", x.vc.ord("shift")), reach, bvCmp("bvsge", xb, mkBVu(0, xb.W)), x.pos(in.Pos()), "negative shift count")
			}
			op := "<<"
			if in.Op == token.SHR {
				op = ">>"
			}
			return scalar(rt, bvShift(op, xa, xb, sg))
		case token.LSS, token.LEQ, token.GTR, token.GEQ:
			m := map[token.Token]string{token.LSS: "lt", token.LEQ: "le", token.GTR: "gt", token.GEQ: "ge"}[in.Op]
			p := "bvu"
			if sg {
				p = "bvs"
			}
			return scalar(rt, bvCmp(p+m, xa, xb))
		}
	case KStr:
		switch in.Op {
		case token.ADD:
			r := x.vc.name("cat", app(SStr, "scat", a.term(), b.term()))
			x.vc.assume(tTrue, mkEq(app(bvSort(64), "slen", r), bvBin("bvadd", app(bvSort(64), "slen", a.term()), app(bvSort(64), "slen", b.term()))))
			return scalar(rt, r)
		case token.LSS, token.LEQ, token.GTR, token.GEQ:
			return scalar(rt, x.vc.fresh("strcmp", SBool))
		}
	case KBool:
		switch in.Op {
		case token.AND:
			return scalar(rt, mkAnd(a.term(), b.term()))
		case token.OR:
			return scalar(rt, mkOr(a.term(), b.term()))
		}
	case KFloat:
		if kindOf(rt) == KBool {
			return scalar(rt, x.vc.fresh("fcmp", SBool))
		}
		return scalar(rt, x.vc.fresh("float", "Float"))
	}
	panic(fmt.Sprintf("unsupported binary operator %s on %s", in.Op, typeName(in.X.Type())))
}

func (x *Exec) doConvert(fr *Frame, in *ssa.Convert) *Sym {
	v := x.get(fr, in.X)
	from, to := in.X.Type(), in.Type()
	kf, kt := kindOf(from), kindOf(to)
	switch {
	case kf == KInt && kt == KInt:
		w, _ := intInfo(to)
		_, sg := intInfo(from)
		return scalar(to, bvResize(v.term(), w, sg))
	case kf == KStr && kt == KStr:
		return scalar(to, v.term())
	case kf == KStr && kt == KSlice: // []byte(s)
		x.vc.declFunGlobal("sbytes", []string{SStr}, SInt)
		arr := app(SInt, "sbytes", v.term())
		return &Sym{T: to, L: []*Term{arr, mkBVu(0, 64), app(bvSort(64), "slen", v.term())}}
	case kf == KSlice && kt == KStr: // string(b)
		x.vc.declFunGlobal("bytes2s", []string{SInt, bvSort(64), bvSort(64)}, SStr)
		return scalar(to, app(SStr, "bytes2s", v.L[0], v.L[1], v.L[2]))
	case kf == KInt && kt == KStr:
		return scalar(to, x.vc.fresh("runestr", SStr))
	case kf == KFloat || kt == KFloat:
		return x.freshSym(to, "fconv", nil, tTrue)
	case kf == KPtr && kt == KPtr:
		return &Sym{T: to, L: v.L, LV: v.LV}
	}
	panic(fmt.Sprintf("unsupported conversion %s -> %s", typeName(from), typeName(to)))
}

func (x *Exec) boxFn(sort string) (string, string) {
	n := sanitize(sort)
	box, unbox := "box."+n, "unbox."+n
	if !x.vc.declared[box] {
		x.vc.declFunGlobal(box, []string{sort}, SInt)
		x.vc.declFunGlobal(unbox, []string{SInt}, sort)
		x.vc.assertGlobal(fmt.Sprintf("(forall ((v %s)) (! (and (= (%s (%s v)) v) (< (%s v) (- 1000))) :pattern ((%s v))))", sort, unbox, box, box, box))
	}
	return box, unbox
}

func (x *Exec) doMakeInterface(fr *Frame, in *ssa.MakeInterface, reach *Term, st *State) *Sym {
	v := x.get(fr, in.X)
	t := in.X.Type()
	tid := x.tid(t)
	x.vc.declFunGlobal("dyntype", []string{SInt}, SInt)
	switch kindOf(t) {
	case KPtr, KMap, KFunc:
		if v.LV != nil {
			v = x.reify(v) // an interior pointer becomes a pointer value (fptr) before it is boxed
		}
		r := v.term()
		if kindOf(t) == KPtr && !(nonNil[r.S] || len(r.S) > 3 && r.S[:3] == "(+ ") {
			// a nil pointer in an interface is a non-nil interface value: the typed nil of type t is
			// the constant typedNil(t); asserting the value back to t yields nil again (unboxAs)
			r = x.vc.name("iface", mkIte(mkEq(r, mkInt64(0)), x.typedNil(t), r))
			x.vc.assume(reach, mkEq(app(SInt, "dyntype", r), tid))
			return scalar(in.Type(), r)
		}
		if !(nonNil[r.S] || len(r.S) > 3 && r.S[:3] == "(+ ") {
			x.vc.oblige("typednil", fmt.Sprintf("typednil#%d", x.vc.ord("typednil")), reach, mkNot(mkEq(r, mkInt64(0))), x.pos(in.Pos()), "map or function value converted to interface must be non-nil (typed nil not modelled)")
		}
		x.vc.assume(reach, mkImp(mkNot(mkEq(r, mkInt64(0))), mkEq(app(SInt, "dyntype", r), tid)))
		return scalar(in.Type(), r)
	case KStruct:
		r := x.newRef(st)
		x.hp.store(st, &LVal{Root: RStruct, Ref: r, RootT: t, T: t}, v)
		x.vc.assume(reach, mkEq(app(SInt, "dyntype", r), tid))
		if cls := x.sp.OnBox[typeName(t)]; len(cls) > 0 {
			for _, u := range x.sp.OnBoxUses[typeName(t)] {
				x.vc.theories[u] = true
			}
			env := &Env{x: x, vars: map[string]*Sym{"self": {T: types.NewPointer(t), L: []*Term{r}}}, st: st, old: st}
			for _, c := range cls {
				x.vc.assume(reach, x.evalClause(env, c))
			}
			addUnique(&x.report.ContractUsed, "onbox "+typeName(t))
		}
		return scalar(in.Type(), r)
	case KIface:
		return scalar(in.Type(), v.term())
	default:
		if len(v.L) != 1 {
			// aggregates (slices, arrays) are boxed into a fresh cell
			r := x.newRef(st)
			x.hp.store(st, &LVal{Root: RBox, Ref: r, RootT: t, T: t}, v)
			x.vc.assume(reach, mkEq(app(SInt, "dyntype", r), tid))
			return scalar(in.Type(), r)
		}
		box, _ := x.boxFn(v.L[0].Sort)
		// one box function per sort; dynamic type is attached per boxed value and type
		r := x.vc.name("boxed", app(SInt, box, v.L[0]))
		_ = r
		// distinguish named types over the same sort by a per-type box
		tb := "box." + sanitize(typeName(t))
		if !x.vc.declared[tb] {
			srt := v.L[0].Sort
			x.vc.declFunGlobal(tb, []string{srt}, SInt)
			x.vc.declFunGlobal("un"+tb, []string{SInt}, srt)
			x.vc.assertGlobal(fmt.Sprintf("(forall ((v %s)) (! (and (= (%s (%s v)) v) (< (%s v) (- 1000)) (not (isTN (%s v))) (= (dyntype (%s v)) %s)) :pattern ((%s v))))", srt, "un"+tb, tb, tb, tb, tb, tid.S, tb))
		}
		return scalar(in.Type(), x.vc.name("boxed", app(SInt, tb, v.L[0])))
	}
}

// privateAlloc: v is a heap allocation that is referred to only by its own initialising stores
// (through field addresses) and by the comparison cmp - no other code can hold this pointer.
func privateAlloc(v ssa.Value, cmp ssa.Instruction) bool {
	a, ok := v.(*ssa.Alloc)
	if !ok || !a.Heap || a.Referrers() == nil {
		return false
	}
	for _, r := range *a.Referrers() {
		if r == cmp {
			continue
		}
		switch r := r.(type) {
		case *ssa.FieldAddr:
			// initialisation of a field: the field address may only be stored into
			for _, rr := range *r.Referrers() {
				st, isStore := rr.(*ssa.Store)
				if !isStore || st.Addr != ssa.Value(r) {
					return false
				}
			}
		case *ssa.Store:
			if r.Addr != ssa.Value(a) {
				return false // the pointer itself is stored somewhere
			}
		case *ssa.DebugRef:
		default:
			return false
		}
	}
	return true
}

// typedNil: the interface value holding a nil pointer of type t (a negative address of its own).
func (x *Exec) typedNil(t types.Type) *Term {
	id := x.tids[typeName(t)]
	if id == 0 {
		x.tid(t)
		id = x.tids[typeName(t)]
	}
	c := mkInt64(int64(-3000000 - id))
	key := fmt.Sprintf("isTN.%d", id)
	if !x.vc.declared[key] {
		x.vc.declared[key] = true
		x.vc.assertGlobal("(isTN " + c.S + ")")
	}
	return c
}

func (x *Exec) unboxAs(v *Term, t types.Type, st *State) *Sym {
	switch kindOf(t) {
	case KPtr:
		return scalar(t, mkIte(mkEq(v, x.typedNil(t)), mkInt64(0), v))
	case KMap, KFunc, KIface:
		return scalar(t, v)
	case KStruct:
		return x.hp.load(st, &LVal{Root: RStruct, Ref: v, RootT: t, T: t})
	default:
		ls := leavesOf(t)
		if len(ls) != 1 {
			return x.hp.load(st, &LVal{Root: RBox, Ref: v, RootT: t, T: t})
		}
		tb := "box." + sanitize(typeName(t))
		if !x.vc.declared[tb] {
			srt := ls[0].Sort
			tid := x.tid(t)
			x.vc.declFunGlobal("dyntype", []string{SInt}, SInt)
			x.vc.declFunGlobal(tb, []string{srt}, SInt)
			x.vc.declFunGlobal("un"+tb, []string{SInt}, srt)
			x.vc.assertGlobal(fmt.Sprintf("(forall ((v %s)) (! (and (= (%s (%s v)) v) (< (%s v) (- 1000)) (not (isTN (%s v))) (= (dyntype (%s v)) %s)) :pattern ((%s v))))", srt, "un"+tb, tb, tb, tb, tb, tid.S, tb))
		}
		return scalar(t, app(ls[0].Sort, "un"+tb, v))
	}
}

func (x *Exec) doTypeAssert(fr *Frame, in *ssa.TypeAssert, reach *Term, st *State) {
	v := x.get(fr, in.X).term()
	x.vc.declFunGlobal("dyntype", []string{SInt}, SInt)
	var ok *Term
	var val *Sym
	if types.IsInterface(in.AssertedType) {
		// interface-to-interface assertion: succeeds iff non-nil and the dynamic type implements it;
		// decided for the dynamic types known to this VC, otherwise unknown.
		impl := x.vc.fresh("implements", SBool)
		ok = mkAnd(mkNot(mkEq(v, mkInt64(0))), impl)
		if in.AssertedType.Underlying().(*types.Interface).NumMethods() == 0 {
			ok = mkNot(mkEq(v, mkInt64(0)))
		}
		val = scalar(in.AssertedType, v)
	} else {
		ok = mkAnd(mkNot(mkEq(v, mkInt64(0))), mkEq(app(SInt, "dyntype", v), x.tid(in.AssertedType)))
		val = x.unboxAs(v, in.AssertedType, st)
	}
	ok = x.vc.name("taok", ok)
	if in.CommaOk {
		z := zeroSym(in.AssertedType)
		res := iteSym(ok, val, z)
		fr.vals[in] = &Sym{T: in.Type(), L: append(append([]*Term{}, res.L...), ok)}
	} else {
		x.vc.oblige("typeassert", fmt.Sprintf("typeassert#%d", x.vc.ord("typeassert")), reach, ok, x.pos(in.Pos()), "type assertion may panic")
		x.vc.assume(reach, ok)
		fr.vals[in] = val
	}
}

func (x *Exec) doIndexAddr(fr *Frame, in *ssa.IndexAddr, reach *Term, st *State) {
	base := x.get(fr, in.X)
	idx := x.toIdx(x.get(fr, in.Index))
	switch bt := in.X.Type().Underlying().(type) {
	case *types.Slice:
		ln := base.L[2]
		x.vc.oblige("index", fmt.Sprintf("index#%d", x.vc.ord("index")), reach, mkAnd(bvCmp("bvsle", mkBVu(0, 64), idx), bvCmp("bvslt", idx, ln)), x.pos(in.Pos()), "index out of range")
		el := bt.Elem()
		fr.vals[in] = &Sym{T: in.Type(), LV: &LVal{Root: RElem, Ref: base.L[0], Idx: elemIndex(base.L[1], idx), RootT: el, T: el}}
	case *types.Pointer:
		arr := bt.Elem().Underlying().(*types.Array)
		n := mkBVu(uint64(arr.Len()), 64)
		x.vc.oblige("index", fmt.Sprintf("index#%d", x.vc.ord("index")), reach, bvCmp("bvult", idx, n), x.pos(in.Pos()), "index out of range")
		if base.LV != nil {
			lv := *base.LV
			if kindOf(bt.Elem()) == KHash {
				lv.Byte = idx
				lv.T = bt.Elem()
			} else {
				lv.Sub = idx
				lv.SubT = arr.Elem()
			}
			fr.vals[in] = &Sym{T: in.Type(), LV: &lv}
		} else {
			x.nilCheck(fr, base, reach, in.Pos(), "index through array pointer")
			if kindOf(bt.Elem()) == KHash {
				fr.vals[in] = &Sym{T: in.Type(), LV: &LVal{Root: RBox, Ref: base.term(), RootT: bt.Elem(), T: bt.Elem(), Byte: idx}}
			} else {
				fr.vals[in] = &Sym{T: in.Type(), LV: &LVal{Root: RElem, Ref: base.term(), Idx: idx, RootT: arr.Elem(), T: arr.Elem()}}
			}
		}
	default:
		panic("IndexAddr on " + typeName(in.X.Type()))
	}
}

func (x *Exec) doIndex(fr *Frame, in *ssa.Index, reach *Term, st *State) {
	base := x.get(fr, in.X)
	idx := x.toIdx(x.get(fr, in.Index))
	switch bt := in.X.Type().Underlying().(type) {
	case *types.Array:
		x.vc.oblige("index", fmt.Sprintf("index#%d", x.vc.ord("index")), reach, bvCmp("bvult", idx, mkBVu(uint64(bt.Len()), 64)), x.pos(in.Pos()), "index out of range")
		if kindOf(in.X.Type()) == KHash {
			sh := bvBin("bvmul", bvResize(idx, 256, false), mkBVu(8, 256))
			fr.vals[in] = scalar(in.Type(), bvExtract(app(bvSort(256), "bvlshr", base.term(), sh), 7, 0))
			return
		}
		out := &Sym{T: in.Type()}
		for _, l := range base.L {
			out.L = append(out.L, mkSelect(l, idx))
		}
		fr.vals[in] = out
	case *types.Basic: // string
		ln := app(bvSort(64), "slen", base.term())
		x.vc.oblige("index", fmt.Sprintf("index#%d", x.vc.ord("index")), reach, bvCmp("bvult", idx, ln), x.pos(in.Pos()), "string index out of range")
		x.vc.declFunGlobal("schar", []string{SStr, bvSort(64)}, bvSort(8))
		fr.vals[in] = scalar(in.Type(), app(bvSort(8), "schar", base.term(), idx))
	default:
		panic("Index on " + typeName(in.X.Type()))
	}
}

func (x *Exec) doSlice(fr *Frame, in *ssa.Slice, reach *Term, st *State) {
	base := x.get(fr, in.X)
	var lo, hi *Term
	if in.Low != nil {
		lo = x.toIdx(x.get(fr, in.Low))
	} else {
		lo = mkBVu(0, 64)
	}
	ord := x.vc.ord("slice")
	switch bt := in.X.Type().Underlying().(type) {
	case *types.Slice:
		ln := base.L[2]
		if in.High != nil {
			hi = x.toIdx(x.get(fr, in.High))
		} else {
			hi = ln
		}
		x.vc.oblige("slice", fmt.Sprintf("slice#%d", ord), reach, mkAnd(bvCmp("bvsle", mkBVu(0, 64), lo), bvCmp("bvsle", lo, hi), bvCmp("bvsle", hi, ln)), x.pos(in.Pos()), "slice bounds out of range (capacity is not modelled: high <= len required)")
		fr.vals[in] = &Sym{T: in.Type(), L: []*Term{base.L[0], x.vc.name("off", bvBin("bvadd", base.L[1], lo)), x.vc.name("len", bvBin("bvsub", hi, lo))}}
	case *types.Basic: // string
		ln := app(bvSort(64), "slen", base.term())
		if in.High != nil {
			hi = x.toIdx(x.get(fr, in.High))
		} else {
			hi = ln
		}
		x.vc.oblige("slice", fmt.Sprintf("slice#%d", ord), reach, mkAnd(bvCmp("bvsle", mkBVu(0, 64), lo), bvCmp("bvsle", lo, hi), bvCmp("bvsle", hi, ln)), x.pos(in.Pos()), "string slice bounds out of range")
		x.vc.declFunGlobal("ssub", []string{SStr, bvSort(64), bvSort(64)}, SStr)
		r := x.vc.name("substr", app(SStr, "ssub", base.term(), lo, hi))
		x.vc.assume(reach, mkEq(app(bvSort(64), "slen", r), bvBin("bvsub", hi, lo)))
		fr.vals[in] = scalar(in.Type(), r)
	case *types.Pointer:
		arr := bt.Elem().Underlying().(*types.Array)
		n := mkBVu(uint64(arr.Len()), 64)
		if in.High != nil {
			hi = x.toIdx(x.get(fr, in.High))
		} else {
			hi = n
		}
		x.vc.oblige("slice", fmt.Sprintf("slice#%d", ord), reach, mkAnd(bvCmp("bvsle", mkBVu(0, 64), lo), bvCmp("bvsle", lo, hi), bvCmp("bvsle", hi, n)), x.pos(in.Pos()), "slice bounds out of range")
		if base.LV != nil || kindOf(bt.Elem()) == KHash {
			// slice of an array that lives inside another object: snapshot view (see DESIGN: interior views)
			cur := x.loadPtr(st, base, bt.Elem())
			r := x.newRef(st)
			el := arr.Elem()
			fams := familiesOf(RElem, el)
			if kindOf(bt.Elem()) == KHash {
				x.vc.declFunGlobal("hash.bytes", []string{bvSort(256)}, arrSort(bvSort(64), bvSort(8)))
				x.hp.heapSet(st, fams[0], mkStore(x.hp.heapGet(st, fams[0]), r, app(arrSort(bvSort(64), bvSort(8)), "hash.bytes", cur.term())))
				viewOf[r.S] = base
			} else {
				for i, f := range fams {
					x.hp.heapSet(st, f, mkStore(x.hp.heapGet(st, f), r, cur.L[i]))
				}
				viewOf[r.S] = base
			}
			x.vc.warn("slice of interior array at %s modelled as a copy-in view", x.pos(in.Pos()))
			fr.vals[in] = &Sym{T: in.Type(), L: []*Term{r, lo, x.vc.name("len", bvBin("bvsub", hi, lo))}}
			return
		}
		x.nilCheck(fr, base, reach, in.Pos(), "slice of array pointer")
		fr.vals[in] = &Sym{T: in.Type(), L: []*Term{base.term(), lo, x.vc.name("len", bvBin("bvsub", hi, lo))}}
	default:
		panic("Slice on " + typeName(in.X.Type()))
	}
}

// viewOf maps the ref of a copy-in view to the pointer of the array it mirrors.
var viewOf = map[string]*Sym{}

func (x *Exec) doMakeSlice(fr *Frame, in *ssa.MakeSlice, reach *Term, st *State) {
	ln := x.toIdx(x.get(fr, in.Len))
	k := x.vc.ord("make")
	x.vc.oblige("make", fmt.Sprintf("make#%d.len", k), reach, mkAnd(bvCmp("bvsle", mkBVu(0, 64), ln), bvCmp("bvslt", ln, mkBVu(1<<40, 64))), x.pos(in.Pos()), "make: length out of range")
	if fr.top && fr.contract != nil {
		if lim, ok := fr.contract.Makes[k]; ok {
			env := x.baseEnv(fr, st)
			l := env.eval(lim.Expr, i64Hint()).term()
			x.vc.oblige("make", fmt.Sprintf("make#%d.limit", k), reach, bvCmp("bvsle", ln, l), x.pos(in.Pos()), "allocation bounded by "+lim.Src)
			if in.Cap != nil {
				cp := x.toIdx(x.get(fr, in.Cap))
				x.vc.oblige("make", fmt.Sprintf("make#%d.caplimit", k), reach, mkAnd(bvCmp("bvsle", mkBVu(0, 64), cp), bvCmp("bvsle", cp, l)), x.pos(in.Pos()), "capacity bounded by "+lim.Src)
			}
		}
	}
	el := in.Type().Underlying().(*types.Slice).Elem()
	r := x.newRef(st)
	for _, f := range familiesOf(RElem, el) {
		x.hp.heapSet(st, f, mkStore(x.hp.heapGet(st, f), r, zeroOfSort(arrSort(bvSort(64), f.Leaf.Sort))))
	}
	fr.vals[in] = &Sym{T: in.Type(), L: []*Term{r, mkBVu(0, 64), ln}}
}

func (x *Exec) doPhi(fr *Frame, in *ssa.Phi) {
	// With merged states a phi needs the edge conditions; they are recorded per block.
	panic("phi nodes are resolved by execBlock")
}

func (x *Exec) doMakeClosure(fr *Frame, in *ssa.MakeClosure, st *State) {
	r := x.newRef(st)
	var bs []*Sym
	for _, b := range in.Bindings {
		bs = append(bs, x.get(fr, b))
	}
	x.closures[r.S] = &closureInfo{fn: in.Fn.(*ssa.Function), bindings: bs}
	fr.vals[in] = scalar(in.Type(), r)
}

// doSelect models a select statement whose cases are all receives: some case is chosen (any index; for a
// non-blocking select also -1), and the received values are arbitrary well-typed values - nothing is assumed
// about what other goroutines send. If the ghosts SEL.idx / SEL.last are declared they record the chosen
// case and the value it received (reference-sorted values only), so that loop `step` clauses can speak
// about "the message handled in this iteration".
func (x *Exec) doSelect(fr *Frame, in *ssa.Select, reach *Term, st *State) {
	addUnique(&x.report.Abstracted, "select: any case may be chosen; received values are arbitrary; a chosen send is recorded in the ghost log SENT (if declared); blocking and scheduling are not modelled")
	idx := x.vc.fresh("sel.idx", bvSort(64))
	lo := int64(0)
	if !in.Blocking {
		lo = -1
	}
	x.vc.assume(tTrue, mkAnd(bvCmp("bvsle", mkBV(big.NewInt(lo), 64), idx), bvCmp("bvslt", idx, mkBVu(uint64(len(in.States)), 64))))
	out := &Sym{T: in.Type(), L: []*Term{idx, x.vc.fresh("sel.ok", SBool)}}
	var last *Term
	for i, s := range in.States {
		if s.Dir == types.SendOnly {
			// a send case: if it is the chosen one, the value goes to the channel - recorded in SENT.ch / SENT.msg
			// (reference-sorted values, e.g. interfaces; others are recorded as 0)
			if x.isGhost("SENT.n") {
				chosen := mkEq(idx, mkBVu(uint64(i), 64))
				n := x.hp.ghostGet(st, "SENT.n")
				var msg *Term = mkInt64(0)
				if sv := x.get(fr, s.Send); sv.LV == nil && len(sv.L) == 1 && sv.L[0].Sort == SInt {
					msg = sv.L[0]
				}
				ch := x.get(fr, s.Chan).term()
				// (written as a store of a conditional value: no conditional between arrays)
				och, omsg := x.hp.ghostGet(st, "SENT.ch"), x.hp.ghostGet(st, "SENT.msg")
				st.ghost["SENT.ch"] = x.vc.name("G.SENT.ch", mkStore(och, n, mkIte(chosen, ch, mkSelect(och, n))))
				st.ghost["SENT.msg"] = x.vc.name("G.SENT.msg", mkStore(omsg, n, mkIte(chosen, msg, mkSelect(omsg, n))))
				st.ghost["SENT.n"] = x.vc.name("G.SENT.n", mkIte(chosen, bvBin("bvadd", n, mkBVu(1, 64)), n))
			}
			continue
		}
		et := s.Chan.Type().Underlying().(*types.Chan).Elem()
		v := x.freshSym(et, fmt.Sprintf("sel.recv%d", i), st.ctr, reach)
		out.L = append(out.L, v.L...)
		if len(v.L) == 1 && v.L[0].Sort == SInt {
			if last == nil {
				last = mkInt64(0)
			}
			last = mkIte(mkEq(idx, mkBVu(uint64(i), 64)), v.L[0], last)
		}
	}
	fr.vals[in] = out
	if x.isGhost("SEL.idx") {
		st.ghost["SEL.idx"] = x.vc.name("G.SEL.idx", idx)
	}
	if x.isGhost("SEL.last") && last != nil {
		st.ghost["SEL.last"] = x.vc.name("G.SEL.last", last)
	}
	k := x.vc.ord("select")
	if fr.top && fr.contract != nil {
		for _, p := range fr.contract.Points {
			if p.CallName != "select" || p.CallOrd != k {
				continue
			}
			env := x.baseEnv(fr, st)
			for _, a := range p.Assumes {
				addUnique(&x.report.Abstracted, "ASSUMED about the values received by select #"+strconv.Itoa(k)+": "+a.Src)
				x.vc.assume(reach, x.evalClause(env, a))
			}
		}
	}
}
