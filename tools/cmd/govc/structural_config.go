package main

// Structural (solver-free) obligations for C20: the configuration tree is well formed for the
// defaults-registration scheme (every leaf key is registered as a viper default, so environment
// variables are honoured), and SetDefaults / envConfig / Load have the call structure the scheme needs.

import (
	"fmt"
	"go/token"
	"go/types"
	"reflect"
	"sort"
	"strings"

	"golang.org/x/tools/go/ssa"
)

func structuralConfig(ld *Loaded) []StructResult {
	var out []StructResult
	add := func(name string, ok bool, detail string) {
		out = append(out, StructResult{Name: name, OK: ok, Detail: detail})
	}
	cfgPath := strings.TrimSuffix(modPrefix, "/") + "/config"
	var pkg *ssa.Package
	for _, p := range ld.prog.AllPackages() {
		if p.Pkg.Path() == cfgPath {
			pkg = p
		}
	}
	if pkg == nil {
		add("config/package", false, "package config is not loaded")
		return out
	}
	tn, _ := pkg.Pkg.Scope().Lookup("AppConfig").(*types.TypeName)
	if tn == nil {
		add("config/keys", false, "type config.AppConfig not found")
		return out
	}
	// ---- config/keys: every field on the way to a leaf carries a plain mapstructure name ----
	var leaves, bad []string
	var walk func(t types.Type, path string, depth int)
	walk = func(t types.Type, path string, depth int) {
		if depth > 8 {
			bad = append(bad, path+": nesting too deep")
			return
		}
		if p, ok := t.Underlying().(*types.Pointer); ok {
			t = p.Elem()
		}
		st, ok := t.Underlying().(*types.Struct)
		if !ok || (isNamedFrom(t, "time") || isNamedFrom(t, "net")) {
			leaves = append(leaves, path)
			switch t.Underlying().(type) {
			case *types.Basic:
			default:
				bad = append(bad, path+": leaf of unsupported kind "+typeName(t))
			}
			return
		}
		seen := map[string]bool{}
		for i := 0; i < st.NumFields(); i++ {
			f := st.Field(i)
			where := path + "<" + f.Name() + ">"
			if !f.Exported() {
				bad = append(bad, where+": unexported field is invisible to mapstructure")
				continue
			}
			tag, has := reflect.StructTag(st.Tag(i)).Lookup("mapstructure")
			if !has || tag == "" {
				bad = append(bad, where+": no mapstructure tag")
				continue
			}
			parts := strings.Split(tag, ",")
			name := parts[0]
			if name == "" || name == "-" {
				bad = append(bad, where+": empty or '-' key name")
				continue
			}
			for _, opt := range parts[1:] {
				bad = append(bad, fmt.Sprintf("%s: option %q (a zero default would not be registered, or keys would be merged)", where, opt))
			}
			if strings.ContainsAny(name, ". ") || strings.ToLower(name) != name {
				bad = append(bad, where+": key name "+name+" contains '.', ' ' or upper case")
			}
			if seen[name] {
				bad = append(bad, where+": duplicate key name "+name)
			}
			seen[name] = true
			np := name
			if path != "" {
				np = path + "." + name
			}
			walk(f.Type(), np, depth+1)
		}
	}
	walk(tn.Type(), "", 0)
	sort.Strings(leaves)
	add("config/keys", len(bad) == 0 && len(leaves) > 0, fmt.Sprintf("%d leaf keys: %s; violations: %s", len(leaves), strings.Join(leaves, " "), strings.Join(bad, "; ")))

	callsOf := func(fn *ssa.Function) []*ssa.CallCommon {
		var cs []*ssa.CallCommon
		if fn == nil {
			return nil
		}
		for _, b := range fn.Blocks {
			for _, in := range b.Instrs {
				if c, ok := in.(ssa.CallInstruction); ok {
					cs = append(cs, c.Common())
				}
			}
		}
		return cs
	}
	calleeName := func(c *ssa.CallCommon) string {
		if f := c.StaticCallee(); f != nil {
			return strings.TrimPrefix(f.String(), modPrefix)
		}
		return ""
	}
	index := func(cs []*ssa.CallCommon, name string) int {
		for i, c := range cs {
			if calleeName(c) == name {
				return i
			}
		}
		return -1
	}
	// ---- config/setdefaults: Decode(GetDefaultAppConfig(), &m); range m { viper.SetDefault(k, v) }; envConfig() ----
	{
		fn := pkg.Func("SetDefaults")
		cs := callsOf(fn)
		iGet, iDec, iEnv := index(cs, "config.GetDefaultAppConfig"), index(cs, "github.com/mitchellh/mapstructure.Decode"), index(cs, "config.envConfig")
		ok := fn != nil && iGet >= 0 && iDec > iGet && iEnv > iDec
		detail := ""
		if ok {
			// Decode's first argument is the default configuration, its second the address of the map
			dec := cs[iDec]
			argOK := false
			if mi, isMI := dec.Args[0].(*ssa.MakeInterface); isMI {
				if call, isCall := mi.X.(*ssa.Call); isCall && calleeName(call.Common()) == "config.GetDefaultAppConfig" {
					argOK = true
				}
			}
			var mapCell ssa.Value
			if mi, isMI := dec.Args[1].(*ssa.MakeInterface); isMI {
				mapCell = mi.X
			}
			// a range over that map whose key/value go to viper.SetDefault
			rangeOK := false
			for _, b := range fn.Blocks {
				for _, in := range b.Instrs {
					r, isR := in.(*ssa.Range)
					if !isR {
						continue
					}
					if u, isU := r.X.(*ssa.UnOp); isU && mapCell != nil && u.X == mapCell {
						rangeOK = true
					}
				}
			}
			setOK := false
			for _, c := range cs {
				if calleeName(c) == "github.com/spf13/viper.SetDefault" {
					if _, isConst := c.Args[0].(*ssa.Const); !isConst {
						setOK = true
					}
				}
			}
			ok = argOK && rangeOK && setOK && mapCell != nil
			detail = fmt.Sprintf("Decode(GetDefaultAppConfig(), &map)=%v range over that map=%v viper.SetDefault(key, value) with the ranged key=%v envConfig afterwards=true", argOK, rangeOK, setOK)
		} else {
			detail = "SetDefaults does not call GetDefaultAppConfig, mapstructure.Decode and envConfig in this order"
		}
		add("config/setdefaults", ok, detail)
	}
	// ---- config/env: prefix BHS, '.' -> '_', AutomaticEnv ----
	{
		fn := pkg.Func("envConfig")
		cs := callsOf(fn)
		iP, iR, iA, iN := index(cs, "github.com/spf13/viper.SetEnvPrefix"), index(cs, "github.com/spf13/viper.SetEnvKeyReplacer"), index(cs, "github.com/spf13/viper.AutomaticEnv"), index(cs, "strings.NewReplacer")
		ok := fn != nil && iP >= 0 && iR >= 0 && iA >= 0 && iN >= 0
		detail := "envConfig must call viper.SetEnvPrefix, SetEnvKeyReplacer(strings.NewReplacer(\".\", \"_\")) and AutomaticEnv"
		if ok {
			pfx, _ := stringConst(cs[iP].Args[0])
			ok = strings.EqualFold(pfx, "bhs")
			detail = fmt.Sprintf("prefix %q", pfx)
			// the replacer's variadic argument: a slice with the constants "." and "_"
			var consts []string
			for _, b := range fn.Blocks {
				for _, in := range b.Instrs {
					if st, isSt := in.(*ssa.Store); isSt {
						if s, isS := stringConst(st.Val); isS {
							consts = append(consts, s)
						}
					}
				}
			}
			if strings.Join(consts, "|") != ".|_" {
				ok = false
			}
			detail += fmt.Sprintf(", replacer pairs %q, AutomaticEnv called", consts)
		}
		add("config/env", ok, detail)
	}
	// ---- config/load: file first, then Unmarshal into the given configuration ----
	{
		fn := pkg.Func("Load")
		cs := callsOf(fn)
		iF, iU := index(cs, "config.loadFromFile"), index(cs, "config.unmarshallToAppConfig")
		ok := fn != nil && iF >= 0 && iU > iF
		un := callsOf(pkg.Func("unmarshallToAppConfig"))
		lf := callsOf(pkg.Func("loadFromFile"))
		ok = ok && index(un, "github.com/spf13/viper.Unmarshal") >= 0 && index(lf, "github.com/spf13/viper.SetConfigFile") >= 0 && index(lf, "github.com/spf13/viper.ReadInConfig") > index(lf, "github.com/spf13/viper.SetConfigFile") && index(lf, "github.com/spf13/viper.GetString") >= 0
		add("config/load", ok, "Load: loadFromFile (viper.GetString(config_file) -> SetConfigFile -> ReadInConfig) before unmarshallToAppConfig (viper.Unmarshal)")
	}
	// ---- config/defaults-order: what GetDefaultAppConfig reads is set before it is called ----
	// The registered defaults are the documented ones only if every package variable the defaults are
	// computed from (config.version) has been assigned by SetDefaults before GetDefaultAppConfig runs.
	{
		fn := pkg.Func("SetDefaults")
		reads := map[*ssa.Global]bool{}
		seen := map[*ssa.Function]bool{}
		var walk func(f *ssa.Function)
		walk = func(f *ssa.Function) {
			if f == nil || seen[f] || f.Pkg != pkg {
				return
			}
			seen[f] = true
			for _, b := range f.Blocks {
				for _, in := range b.Instrs {
					if u, isU := in.(*ssa.UnOp); isU && u.Op == token.MUL {
						if g, isG := u.X.(*ssa.Global); isG {
							reads[g] = true
						}
					}
					if c, isC := in.(ssa.CallInstruction); isC {
						walk(c.Common().StaticCallee())
					}
				}
			}
		}
		walk(pkg.Func("GetDefaultAppConfig"))
		ok := fn != nil
		var notes []string
		if ok {
			var call ssa.Instruction
			for _, b := range fn.Blocks {
				for _, in := range b.Instrs {
					if c, isC := in.(ssa.CallInstruction); isC && calleeName(c.Common()) == "config.GetDefaultAppConfig" && call == nil {
						call = in
					}
				}
			}
			pos := func(in ssa.Instruction) int {
				for i, x := range in.Block().Instrs {
					if x == in {
						return i
					}
				}
				return -1
			}
			for _, b := range fn.Blocks {
				for _, in := range b.Instrs {
					st, isSt := in.(*ssa.Store)
					if !isSt {
						continue
					}
					g, isG := st.Addr.(*ssa.Global)
					if !isG || !reads[g] {
						continue
					}
					before := call != nil && ((st.Block() == call.Block() && pos(st) < pos(call)) || (st.Block() != call.Block() && st.Block().Dominates(call.Block())))
					notes = append(notes, fmt.Sprintf("%s assigned before GetDefaultAppConfig()=%v", g.Name(), before))
					if !before {
						ok = false
					}
				}
			}
			if call == nil {
				ok = false
			}
		}
		sort.Strings(notes)
		add("config/defaults-order", ok, "package variables read by GetDefaultAppConfig and assigned by SetDefaults: "+strings.Join(notes, "; "))
	}
	// ---- config/decode-hooks: viper's default decode hooks stay in force ----
	// Duration-typed keys (p2p.ban_duration, ...) come from env and file as strings: viper.Unmarshal decodes
	// them only through its default hooks. viper.DecodeHook(h) REPLACES those; it is acceptable only if h
	// composes mapstructure.StringToTimeDurationHookFunc and StringToSliceHookFunc again.
	{
		ok := true
		detail := "viper.Unmarshal is called without a DecodeHook option (default hooks in force)"
		for _, m := range pkg.Members {
			f, isF := m.(*ssa.Function)
			if !isF {
				continue
			}
			cs := callsOf(f)
			if index(cs, "github.com/spf13/viper.DecodeHook") < 0 {
				continue
			}
			if index(cs, "github.com/mitchellh/mapstructure.StringToTimeDurationHookFunc") >= 0 && index(cs, "github.com/mitchellh/mapstructure.StringToSliceHookFunc") >= 0 && index(cs, "github.com/mitchellh/mapstructure.ComposeDecodeHookFunc") >= 0 {
				detail = f.Name() + " passes viper.DecodeHook a composition that includes the default string->duration and string->slice hooks"
				continue
			}
			ok = false
			detail = f.Name() + " passes viper.DecodeHook(...) without composing the default string->duration / string->slice hooks: keys of type time.Duration no longer decode from env or file"
		}
		add("config/decode-hooks", ok, detail)
	}
	return out
}

func isNamedFrom(t types.Type, pkg string) bool {
	n, ok := t.(*types.Named)
	return ok && n.Obj().Pkg() != nil && n.Obj().Pkg().Path() == pkg
}
