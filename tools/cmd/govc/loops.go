package main

// Loop structure of an SSA function and syntactic modified-sets.

import (
	"go/token"
	"go/types"
	"sort"

	"golang.org/x/tools/go/ssa"
)

type LoopInfo struct {
	Header *ssa.BasicBlock
	Ord    int
	Body   map[*ssa.BasicBlock]bool
	Backs  []*ssa.BasicBlock // sources of back edges
	Spec   *LoopSpec
}

type FnLoops struct {
	loops    []*LoopInfo
	byHeader map[*ssa.BasicBlock]*LoopInfo
	inLoops  map[*ssa.BasicBlock][]*LoopInfo // outermost first
}

func analyzeLoops(fn *ssa.Function) *FnLoops {
	fl := &FnLoops{byHeader: map[*ssa.BasicBlock]*LoopInfo{}, inLoops: map[*ssa.BasicBlock][]*LoopInfo{}}
	for _, b := range fn.Blocks {
		for _, s := range b.Succs {
			if s.Dominates(b) {
				li := fl.byHeader[s]
				if li == nil {
					li = &LoopInfo{Header: s, Body: map[*ssa.BasicBlock]bool{s: true}}
					fl.byHeader[s] = li
					fl.loops = append(fl.loops, li)
				}
				li.Backs = append(li.Backs, b)
				// natural loop
				work := []*ssa.BasicBlock{b}
				for len(work) > 0 {
					n := work[len(work)-1]
					work = work[:len(work)-1]
					if li.Body[n] {
						continue
					}
					li.Body[n] = true
					work = append(work, n.Preds...)
				}
			}
		}
	}
	sort.Slice(fl.loops, func(i, j int) bool { return fl.loops[i].Header.Index < fl.loops[j].Header.Index })
	for i, l := range fl.loops {
		l.Ord = i
	}
	for _, b := range fn.Blocks {
		var ls []*LoopInfo
		for _, l := range fl.loops {
			if l.Body[b] {
				ls = append(ls, l)
			}
		}
		sort.Slice(ls, func(i, j int) bool { return len(ls[i].Body) > len(ls[j].Body) })
		fl.inLoops[b] = ls
	}
	return fl
}

// ModSet: what a piece of code may modify.
type ModSet struct {
	All       bool
	Cells     map[*ssa.Alloc]bool
	Fams      map[string]Family // families really written
	AllocFams map[string]Family // families only initialised at fresh objects
	Ghosts    map[string]bool
	Ctr       bool
	Big       bool
	Maps      map[string]bool
	offStable map[*ssa.Alloc]bool // slice cells only ever assigned append/make/nil results
	// Targets: struct-field families whose every write in the region goes through a pointer read
	// from a local cell (`p.f = v` with p a local variable); Untargeted: families also written otherwise.
	Targets    map[string][]*ssa.Alloc
	Untargeted map[string]bool
	curTarget  *ssa.Alloc
}

func newModSet() *ModSet {
	return &ModSet{Targets: map[string][]*ssa.Alloc{}, Untargeted: map[string]bool{}, offStable: map[*ssa.Alloc]bool{}, Cells: map[*ssa.Alloc]bool{}, Fams: map[string]Family{}, AllocFams: map[string]Family{}, Ghosts: map[string]bool{}, Maps: map[string]bool{}}
}

func (m *ModSet) addFamsOf(root RootKind, t types.Type, off, n int) {
	fams := familiesOf(root, t)
	if n < 0 {
		n = len(fams) - off
	}
	for _, f := range fams[off : off+n] {
		m.Fams[f.Name] = f
		if m.curTarget != nil && root == RStruct {
			m.Targets[f.Name] = append(m.Targets[f.Name], m.curTarget)
		} else {
			m.Untargeted[f.Name] = true
		}
	}
}

func (m *ModSet) union(o *ModSet) {
	if o.All {
		m.All = true
	}
	for k := range o.Cells {
		m.Cells[k] = true
	}
	for k, v := range o.Fams {
		m.Fams[k] = v
		m.Untargeted[k] = true
	}
	for k, v := range o.AllocFams {
		m.AllocFams[k] = v
	}
	for k := range o.Ghosts {
		m.Ghosts[k] = true
	}
	for k := range o.Maps {
		m.Maps[k] = true
	}
	m.Ctr = m.Ctr || o.Ctr
	m.Big = m.Big || o.Big
}

// rootOfAddr follows FieldAddr/IndexAddr chains to the root of an address expression.
// Returns the non-escaping Alloc if the root is a local cell, else nil; and the static
// description of the designated location for heap writes.
func (x *Exec) modOfStore(m *ModSet, addr ssa.Value, valT types.Type) {
	off := 0
	cur := addr
	t := valT
	_ = t
	for {
		switch a := cur.(type) {
		case *ssa.Alloc:
			if !a.Heap {
				m.Cells[a] = true
				return
			}
			el := a.Type().Underlying().(*types.Pointer).Elem()
			if x.allocInScope(a) {
				return // initialisation of an object allocated in this region (its families are AllocFams)
			}
			x.modOfHeapWrite(m, el, off, valT)
			return
		case *ssa.FieldAddr:
			st := a.X.Type().Underlying().(*types.Pointer).Elem()
			o, _, _ := fieldRange(st, a.Field)
			off += o
			// is the base a local cell?
			if base, ok := a.X.(*ssa.Alloc); ok && !base.Heap {
				m.Cells[base] = true
				return
			}
			if base, ok := a.X.(*ssa.Alloc); ok && base.Heap && x.allocInScope(base) {
				return
			}
			if _, ok := a.X.(*ssa.FieldAddr); ok {
				cur = a.X
				continue
			}
			if _, ok := a.X.(*ssa.IndexAddr); ok {
				// element of a slice of structs
				ia := a.X.(*ssa.IndexAddr)
				x.modOfIndex(m, ia, off, valT)
				return
			}
			// base is a pointer value: heap struct
			if u, ok := a.X.(*ssa.UnOp); ok && u.Op == token.MUL && !dualTypes[typeName(st)] {
				if c, ok := u.X.(*ssa.Alloc); ok && !c.Heap {
					m.curTarget = c
				}
			}
			x.modOfHeapWrite(m, st, off, valT)
			m.curTarget = nil
			return
		case *ssa.IndexAddr:
			x.modOfIndex(m, a, off, valT)
			return
		default:
			// arbitrary pointer value
			el := cur.Type().Underlying().(*types.Pointer).Elem()
			x.modOfHeapWrite(m, el, off, valT)
			return
		}
	}
}

func (x *Exec) modOfIndex(m *ModSet, ia *ssa.IndexAddr, off int, valT types.Type) {
	switch xt := ia.X.Type().Underlying().(type) {
	case *types.Slice:
		m.addFamsOf(RElem, xt.Elem(), off, len(leavesOf(valT)))
	case *types.Pointer:
		arr := xt.Elem().Underlying().(*types.Array)
		// pointer to array: local cell, field of something, or heap array object
		switch base := ia.X.(type) {
		case *ssa.Alloc:
			if !base.Heap {
				m.Cells[base] = true
				return
			}
			if x.allocInScope(base) {
				return
			}
			m.addFamsOf(RElem, arr.Elem(), off, len(leavesOf(valT)))
		case *ssa.FieldAddr:
			// array field inside a struct: whole array leaf is rewritten
			x.modOfStore(m, base, xt.Elem())
		default:
			m.addFamsOf(RElem, arr.Elem(), off, len(leavesOf(valT)))
		}
	}
}

func (x *Exec) modOfHeapWrite(m *ModSet, objT types.Type, off int, valT types.Type) {
	n := len(leavesOf(valT))
	switch kindOf(objT) {
	case KStruct:
		m.addFamsOf(RStruct, objT, off, n)
	case KBig:
		m.Big = true
	case KArr:
		m.addFamsOf(RElem, objT.Underlying().(*types.Array).Elem(), 0, -1)
	default:
		m.addFamsOf(RBox, objT, off, n)
	}
}

// allocInScope: is the (heap) Alloc executed inside the code region being analysed?  Writes to
// such objects are initialisations of fresh objects, not modifications of pre-existing ones.
func (x *Exec) allocInScope(a *ssa.Alloc) bool {
	for _, sc := range x.modScopes {
		if sc[a.Block()] {
			return true
		}
	}
	return false
}

func (m *ModSet) addAllocFamsOf(root RootKind, t types.Type, off, n int) {
	fams := familiesOf(root, t)
	if n < 0 {
		n = len(fams) - off
	}
	for _, f := range fams[off : off+n] {
		if _, real := m.Fams[f.Name]; !real {
			m.AllocFams[f.Name] = f
		}
	}
}

func (x *Exec) modOfBlocks(blocks []*ssa.BasicBlock, depth int) *ModSet {
	sc := map[*ssa.BasicBlock]bool{}
	for _, b := range blocks {
		sc[b] = true
	}
	x.modScopes = append(x.modScopes, sc)
	defer func() { x.modScopes = x.modScopes[:len(x.modScopes)-1] }()
	m := newModSet()
	for _, b := range blocks {
		for _, in := range b.Instrs {
			switch in := in.(type) {
			case *ssa.Store:
				x.modOfStore(m, in.Addr, in.Val.Type())
			case *ssa.Alloc:
				if !in.Heap {
					m.Cells[in] = true
				} else {
					m.Ctr = true
					el := in.Type().Underlying().(*types.Pointer).Elem()
					switch kindOf(el) {
					case KStruct:
						for _, f := range familiesOf(RStruct, el) {
							m.AllocFams[f.Name] = f
						}
					case KArr:
						for _, f := range familiesOf(RElem, el.Underlying().(*types.Array).Elem()) {
							m.AllocFams[f.Name] = f
						}
					case KBig:
						m.Big = true
					default:
						for _, f := range familiesOf(RBox, el) {
							m.AllocFams[f.Name] = f
						}
					}
				}
			case *ssa.MakeSlice:
				m.Ctr = true
				el := in.Type().Underlying().(*types.Slice).Elem()
				for _, f := range familiesOf(RElem, el) {
					m.AllocFams[f.Name] = f
				}
			case *ssa.MakeChan:
				m.Ctr = true
			case *ssa.MakeMap:
				m.Ctr = true
				m.Maps[mapKey(in.Type())] = true
			case *ssa.MapUpdate:
				m.Maps[mapKey(in.Map.Type())] = true
			case *ssa.MakeInterface:
				if kindOf(in.X.Type()) == KStruct {
					m.Ctr = true
					for _, f := range familiesOf(RStruct, in.X.Type()) {
						m.AllocFams[f.Name] = f
					}
				}
			case *ssa.MakeClosure:
				m.Ctr = true
			case *ssa.Select:
				for _, g := range []string{"SEL.idx", "SEL.last", "SENT.n", "SENT.ch", "SENT.msg"} {
					if x.isGhost(g) {
						m.Ghosts[g] = true
					}
				}
			case *ssa.Go:
				for _, g := range []string{"SPAWN.n", "SPAWN.fn", "SPAWN.recv", "SPAWN.arg"} {
					if x.isGhost(g) {
						m.Ghosts[g] = true
					}
				}
			case *ssa.Defer:
			case ssa.CallInstruction:
				m.union(x.modOfCall(in.Common(), depth))
			}
		}
	}
	// a family that is really written is not alloc-only
	for k := range m.Fams {
		delete(m.AllocFams, k)
	}
	// slice cells whose every assignment in the region keeps offset 0
	unstable := map[*ssa.Alloc]bool{}
	for _, b := range blocks {
		for _, in := range b.Instrs {
			st, ok := in.(*ssa.Store)
			if !ok {
				continue
			}
			a, ok := st.Addr.(*ssa.Alloc)
			if !ok || a.Heap {
				continue
			}
			switch v := st.Val.(type) {
			case *ssa.MakeSlice:
			case *ssa.Const:
				if v.Value != nil {
					unstable[a] = true
				}
			case *ssa.Call:
				if bi, ok := v.Call.Value.(*ssa.Builtin); !ok || bi.Name() != "append" {
					unstable[a] = true
				}
			default:
				unstable[a] = true
			}
		}
	}
	for a := range m.Cells {
		if !unstable[a] {
			m.offStable[a] = true
		}
	}
	return m
}
