package main

// Go types -> flattened symbolic values. A Sym is the list of SMT leaves of a Go value in
// canonical order (struct fields flattened, slices = arr/off/len, scalars = one leaf).

import (
	"fmt"
	"go/types"
	"strings"
)

type Kind int

const (
	KBool Kind = iota
	KInt
	KStr
	KPtr  // any pointer (Ref = Int)
	KStruct
	KSlice
	KIface
	KMap
	KFunc
	KBig  // math/big.Int by value (mathematical Int)
	KTime // time.Time by value
	KHash // [32]byte-like named hash type by value -> BV256
	KArr  // other arrays by value -> (Array BV64 elem)
	KTuple
	KFloat
	KOpaque
)

const modPrefix = "github.com/bitcoin-sv/block-headers-service/"

func typeName(t types.Type) string {
	s := types.TypeString(t, func(p *types.Package) string {
		return strings.TrimPrefix(p.Path(), modPrefix)
	})
	return s
}

func isBigIntStruct(t types.Type) bool {
	st, ok := t.Underlying().(*types.Struct)
	if !ok || st.NumFields() != 2 {
		return false
	}
	if st.Field(0).Name() != "neg" || st.Field(1).Name() != "abs" {
		return false
	}
	return st.Field(0).Pkg() != nil && st.Field(0).Pkg().Path() == "math/big"
}

func isTime(t types.Type) bool {
	n, ok := t.(*types.Named)
	if ok && n.Obj().Pkg() != nil && n.Obj().Pkg().Path() == "time" && n.Obj().Name() == "Time" {
		return true
	}
	// a named type defined as time.Time (e.g. wire.int64Time) has the same representation
	st, ok := t.Underlying().(*types.Struct)
	if !ok || st.NumFields() != 3 {
		return false
	}
	f0 := st.Field(0)
	return f0.Name() == "wall" && f0.Pkg() != nil && f0.Pkg().Path() == "time" && st.Field(1).Name() == "ext" && st.Field(2).Name() == "loc"
}

func isHashArr(t types.Type) bool {
	a, ok := t.Underlying().(*types.Array)
	if !ok || a.Len() != 32 {
		return false
	}
	b, ok := a.Elem().Underlying().(*types.Basic)
	if !ok || b.Kind() != types.Uint8 {
		return false
	}
	_, named := t.(*types.Named)
	return named
}

func kindOf(t types.Type) Kind {
	if isTime(t) {
		return KTime
	}
	if isBigIntStruct(t) {
		return KBig
	}
	if isHashArr(t) {
		return KHash
	}
	switch u := t.Underlying().(type) {
	case *types.Basic:
		switch {
		case u.Info()&types.IsBoolean != 0:
			return KBool
		case u.Info()&types.IsInteger != 0:
			return KInt
		case u.Info()&types.IsString != 0:
			return KStr
		case u.Info()&types.IsFloat != 0:
			return KFloat
		case u.Kind() == types.UnsafePointer:
			return KPtr
		case u.Kind() == types.UntypedNil:
			return KPtr
		}
		return KOpaque
	case *types.Pointer:
		return KPtr
	case *types.Struct:
		return KStruct
	case *types.Slice:
		return KSlice
	case *types.Interface:
		return KIface
	case *types.Map:
		return KMap
	case *types.Signature:
		return KFunc
	case *types.Array:
		return KArr
	case *types.Tuple:
		return KTuple
	case *types.Chan:
		return KOpaque
	}
	return KOpaque
}

func intInfo(t types.Type) (w int, signed bool) {
	b, ok := t.Underlying().(*types.Basic)
	if !ok {
		return 0, false
	}
	signed = b.Info()&types.IsUnsigned == 0
	switch b.Kind() {
	case types.Int8, types.Uint8:
		w = 8
	case types.Int16, types.Uint16:
		w = 16
	case types.Int32, types.Uint32:
		w = 32
	case types.Int, types.Uint, types.Int64, types.Uint64, types.Uintptr, types.UntypedInt, types.UntypedRune:
		w = 64
	}
	return
}

type Leaf struct {
	Path string
	Sort string
	T    types.Type
}

var leafCache = map[types.Type][]Leaf{}

func leavesOf(t types.Type) []Leaf {
	if l, ok := leafCache[t]; ok {
		return l
	}
	var out []Leaf
	switch kindOf(t) {
	case KBool:
		out = []Leaf{{"", SBool, t}}
	case KInt:
		w, _ := intInfo(t)
		out = []Leaf{{"", bvSort(w), t}}
	case KStr:
		out = []Leaf{{"", SStr, t}}
	case KPtr, KIface, KMap, KFunc, KOpaque:
		out = []Leaf{{"", SInt, t}}
	case KFloat:
		out = []Leaf{{"", "Float", t}}
	case KBig:
		out = []Leaf{{"", SInt, t}}
	case KTime:
		out = []Leaf{{"", STime, t}}
	case KHash:
		out = []Leaf{{"", bvSort(256), t}}
	case KArr:
		a := t.Underlying().(*types.Array)
		el := leavesOf(a.Elem())
		for _, e := range el {
			out = append(out, Leaf{e.Path, arrSort(bvSort(64), e.Sort), e.T})
		}
	case KSlice:
		out = []Leaf{{".arr", SInt, t}, {".off", bvSort(64), t}, {".len", bvSort(64), t}}
	case KStruct:
		st := t.Underlying().(*types.Struct)
		for i := 0; i < st.NumFields(); i++ {
			f := st.Field(i)
			for _, l := range leavesOf(f.Type()) {
				out = append(out, Leaf{"." + f.Name() + l.Path, l.Sort, l.T})
			}
		}
	case KTuple:
		tu := t.Underlying().(*types.Tuple)
		for i := 0; i < tu.Len(); i++ {
			for _, l := range leavesOf(tu.At(i).Type()) {
				out = append(out, Leaf{fmt.Sprintf(".%d%s", i, l.Path), l.Sort, l.T})
			}
		}
	}
	leafCache[t] = out
	return out
}

// fieldRange returns the leaf offset and count of field i of struct (or tuple) type t.
func fieldRange(t types.Type, i int) (off, n int, ft types.Type) {
	switch u := t.Underlying().(type) {
	case *types.Struct:
		for j := 0; j < i; j++ {
			off += len(leavesOf(u.Field(j).Type()))
		}
		ft = u.Field(i).Type()
	case *types.Tuple:
		for j := 0; j < i; j++ {
			off += len(leavesOf(u.At(j).Type()))
		}
		ft = u.At(i).Type()
	default:
		panic("fieldRange on " + t.String())
	}
	n = len(leavesOf(ft))
	return
}

type Sym struct {
	T  types.Type
	L  []*Term
	LV *LVal // executor-level pointer (L is nil then)
}

func scalar(t types.Type, x *Term) *Sym { return &Sym{T: t, L: []*Term{x}} }

func (s *Sym) term() *Term {
	if s.LV != nil {
		panic("term() of executor-level pointer " + s.LV.String())
	}
	if len(s.L) != 1 {
		panic(fmt.Sprintf("term() of aggregate %s with %d leaves", typeName(s.T), len(s.L)))
	}
	return s.L[0]
}

func (s *Sym) field(i int) *Sym {
	off, n, ft := fieldRange(s.T, i)
	return &Sym{T: ft, L: s.L[off : off+n]}
}

func zeroSym(t types.Type) *Sym {
	ls := leavesOf(t)
	out := &Sym{T: t}
	for _, l := range ls {
		out.L = append(out.L, zeroOfSort(l.Sort))
	}
	return out
}

func iteSym(c *Term, a, b *Sym) *Sym {
	if a.LV != nil || b.LV != nil {
		if a.LV != nil && b.LV != nil && a.LV.String() == b.LV.String() {
			return a
		}
		panic("cannot merge distinct executor-level pointers")
	}
	if len(a.L) != len(b.L) {
		panic("iteSym: shape mismatch " + typeName(a.T) + " vs " + typeName(b.T))
	}
	out := &Sym{T: a.T}
	for i := range a.L {
		out.L = append(out.L, mkIte(c, a.L[i], b.L[i]))
	}
	return out
}

func eqSym(a, b *Sym) *Term {
	if a.LV != nil || b.LV != nil {
		if a.LV != nil && b.LV != nil {
			return mkBool(a.LV.String() == b.LV.String())
		}
		// executor-level pointers are never nil and never equal to heap refs
		return tFalse
	}
	var cs []*Term
	for i := range a.L {
		cs = append(cs, mkEq(a.L[i], b.L[i]))
	}
	return mkAnd(cs...)
}

// ---- lvalues ----

type RootKind int

const (
	RCell   RootKind = iota // non-escaping local variable
	RStruct                 // heap struct object: families keyed by struct type
	RBox                    // heap cell holding a non-struct value: families cell<T>
	RElem                   // element of a backing array: families elem<T>
	RDual                   // pointer to a struct that is either a heap object or a slice element (eref)
)

type LVal struct {
	Root  RootKind
	Cell  *cellID
	Ref   *Term      // RStruct/RBox: object ref; RElem: backing array ref
	Idx   *Term      // RElem: element index (BV64)
	RootT types.Type // type of the root object (struct type, boxed type, element type)
	Off   int        // leaf range of the designated sub-object within the root's leaves
	T     types.Type // type of the designated sub-object
	Sub   *Term      // optional: index into a by-value array leaf range (BV64)
	SubT  types.Type // element type when Sub != nil
	Byte  *Term      // optional: byte index into a hash (BV256) leaf
}

type cellID struct {
	name string
	t    types.Type
}

func (l *LVal) String() string {
	s := ""
	switch l.Root {
	case RCell:
		s = "cell:" + l.Cell.name
	case RStruct:
		s = "obj:" + l.Ref.S + ":" + typeName(l.RootT)
	case RBox:
		s = "box:" + l.Ref.S + ":" + typeName(l.RootT)
	case RElem:
		s = "elem:" + l.Ref.S + "[" + l.Idx.S + "]:" + typeName(l.RootT)
	case RDual:
		s = "dual:" + l.Ref.S + ":" + typeName(l.RootT)
	}
	s += fmt.Sprintf("+%d:%s", l.Off, typeName(l.T))
	if l.Sub != nil {
		s += "[" + l.Sub.S + "]"
	}
	if l.Byte != nil {
		s += "{" + l.Byte.S + "}"
	}
	return s
}

func (l *LVal) fieldOf(i int) *LVal {
	off, _, ft := fieldRange(l.T, i)
	n := *l
	n.Off = l.Off + off
	n.T = ft
	return &n
}

func familyPrefix(root RootKind, t types.Type) string {
	switch root {
	case RStruct:
		return sanitize(typeName(t))
	case RBox:
		return "cell." + sanitize(typeName(t))
	case RElem:
		return "elem." + sanitize(typeName(t))
	}
	panic("familyPrefix")
}

type Family struct {
	Name string
	Sort string // full array sort
	Leaf Leaf
	Root RootKind
	KeySort string // map value families: sort of the key
}

func familiesOf(root RootKind, t types.Type) []Family {
	pre := familyPrefix(root, t)
	var out []Family
	for _, l := range leavesOf(t) {
		f := Family{Name: pre + sanitize(l.Path), Leaf: l, Root: root}
		if root == RElem {
			f.Sort = arrSort(SInt, arrSort(bvSort(64), l.Sort))
		} else {
			f.Sort = arrSort(SInt, l.Sort)
		}
		out = append(out, f)
	}
	return out
}
