package main

// Contract expression language: lexer + Pratt parser.

import (
	"fmt"
	"strings"
	"unicode"
)

type Node struct {
	Op   string  // "id","int","str","call","field","index","slice","un","bin","forall","exists","old","ite"
	Name string  // identifier / operator / field name
	Args []*Node // operands
	Vars []BVar  // quantifier variables
	Pats [][]*Node
	Src  string
}

type BVar struct {
	Name string
	Type string
}

type tok struct {
	k string // id int str op eof
	s string
}

func lex(src string) ([]tok, error) {
	var out []tok
	i := 0
	for i < len(src) {
		c := src[i]
		switch {
		case c == ' ' || c == '\t' || c == '\n' || c == '\r':
			i++
		case unicode.IsLetter(rune(c)) || c == '_':
			j := i
			for j < len(src) && (unicode.IsLetter(rune(src[j])) || unicode.IsDigit(rune(src[j])) || src[j] == '_' || src[j] == '$' || src[j] == '\'') {
				j++
			}
			out = append(out, tok{"id", src[i:j]})
			i = j
		case unicode.IsDigit(rune(c)):
			j := i
			if c == '0' && j+1 < len(src) && (src[j+1] == 'x' || src[j+1] == 'X') {
				j += 2
				for j < len(src) && (unicode.IsDigit(rune(src[j])) || strings.ContainsRune("abcdefABCDEF_", rune(src[j]))) {
					j++
				}
			} else {
				for j < len(src) && (unicode.IsDigit(rune(src[j])) || src[j] == '_') {
					j++
				}
			}
			out = append(out, tok{"int", strings.ReplaceAll(src[i:j], "_", "")})
			i = j
		case c == '"':
			j := i + 1
			var sb strings.Builder
			for j < len(src) && src[j] != '"' {
				if src[j] == '\\' && j+1 < len(src) {
					j++
					switch src[j] {
					case 'n':
						sb.WriteByte('\n')
					case 't':
						sb.WriteByte('\t')
					default:
						sb.WriteByte(src[j])
					}
				} else {
					sb.WriteByte(src[j])
				}
				j++
			}
			if j >= len(src) {
				return nil, fmt.Errorf("unterminated string in %q", src)
			}
			out = append(out, tok{"str", sb.String()})
			i = j + 1
		case c == '`':
			j := strings.IndexByte(src[i+1:], '`')
			if j < 0 {
				return nil, fmt.Errorf("unterminated raw in %q", src)
			}
			out = append(out, tok{"raw", src[i+1 : i+1+j]})
			i = i + j + 2
		default:
			ops := []string{"<==>", "==>", "::", "&&", "||", "==", "!=", "<=", ">=", "<<", ">>", "&^", "+", "-", "*", "/", "%", "&", "|", "^", "<", ">", "!", "(", ")", "[", "]", ",", ".", ":", "{", "}"}
			matched := false
			for _, o := range ops {
				if strings.HasPrefix(src[i:], o) {
					out = append(out, tok{"op", o})
					i += len(o)
					matched = true
					break
				}
			}
			if !matched {
				return nil, fmt.Errorf("bad character %q in %q", c, src)
			}
		}
	}
	out = append(out, tok{"eof", ""})
	return out, nil
}

type parser struct {
	toks []tok
	p    int
	src  string
}

func parseExpr(src string) (n *Node, err error) {
	toks, err := lex(src)
	if err != nil {
		return nil, err
	}
	ps := &parser{toks: toks, src: src}
	defer func() {
		if r := recover(); r != nil {
			err = fmt.Errorf("parse error in %q: %v", src, r)
		}
	}()
	n = ps.expr()
	if ps.peek().k != "eof" {
		panic(fmt.Sprintf("unexpected %q", ps.peek().s))
	}
	n.Src = src
	return n, nil
}

func (p *parser) peek() tok { return p.toks[p.p] }
func (p *parser) next() tok { t := p.toks[p.p]; p.p++; return t }
func (p *parser) isOp(s string) bool {
	t := p.peek()
	return t.k == "op" && t.s == s
}
func (p *parser) expect(s string) {
	if !p.isOp(s) {
		panic(fmt.Sprintf("expected %q, found %q", s, p.peek().s))
	}
	p.p++
}

func (p *parser) expr() *Node {
	t := p.peek()
	if t.k == "id" && (t.s == "forall" || t.s == "exists") {
		p.next()
		n := &Node{Op: t.s}
		for {
			name := p.next()
			if name.k != "id" {
				panic("quantifier variable expected")
			}
			ty := p.next()
			if ty.k != "id" && ty.k != "raw" {
				panic("quantifier type expected")
			}
			n.Vars = append(n.Vars, BVar{name.s, ty.s})
			if p.isOp(",") {
				p.next()
				continue
			}
			break
		}
		p.expect("::")
		// optional triggers { e, e } { e }
		for p.isOp("{") {
			p.next()
			var pat []*Node
			for {
				pat = append(pat, p.expr())
				if p.isOp(",") {
					p.next()
					continue
				}
				break
			}
			p.expect("}")
			n.Pats = append(n.Pats, pat)
		}
		n.Args = []*Node{p.expr()}
		return n
	}
	return p.iff()
}

func (p *parser) iff() *Node {
	l := p.implies()
	for p.isOp("<==>") {
		p.next()
		r := p.implies()
		l = &Node{Op: "bin", Name: "<==>", Args: []*Node{l, r}}
	}
	return l
}

func (p *parser) implies() *Node {
	l := p.or()
	if p.isOp("==>") {
		p.next()
		// right associative; allow quantifier on the right
		var r *Node
		t := p.peek()
		if t.k == "id" && (t.s == "forall" || t.s == "exists") {
			r = p.expr()
		} else {
			r = p.implies()
		}
		return &Node{Op: "bin", Name: "==>", Args: []*Node{l, r}}
	}
	return l
}

func (p *parser) or() *Node {
	l := p.and()
	for p.isOp("||") {
		p.next()
		r := p.and()
		l = &Node{Op: "bin", Name: "||", Args: []*Node{l, r}}
	}
	return l
}

func (p *parser) and() *Node {
	l := p.cmp()
	for p.isOp("&&") {
		p.next()
		r := p.cmp()
		l = &Node{Op: "bin", Name: "&&", Args: []*Node{l, r}}
	}
	return l
}

func (p *parser) cmp() *Node {
	l := p.add()
	for {
		t := p.peek()
		if t.k == "op" && (t.s == "==" || t.s == "!=" || t.s == "<" || t.s == "<=" || t.s == ">" || t.s == ">=") {
			p.next()
			r := p.add()
			l = &Node{Op: "bin", Name: t.s, Args: []*Node{l, r}}
			continue
		}
		return l
	}
}

func (p *parser) add() *Node {
	l := p.mul()
	for {
		t := p.peek()
		if t.k == "op" && (t.s == "+" || t.s == "-" || t.s == "|" || t.s == "^") {
			p.next()
			r := p.mul()
			l = &Node{Op: "bin", Name: t.s, Args: []*Node{l, r}}
			continue
		}
		return l
	}
}

func (p *parser) mul() *Node {
	l := p.unary()
	for {
		t := p.peek()
		if t.k == "op" && (t.s == "*" || t.s == "/" || t.s == "%" || t.s == "<<" || t.s == ">>" || t.s == "&" || t.s == "&^") {
			p.next()
			r := p.unary()
			l = &Node{Op: "bin", Name: t.s, Args: []*Node{l, r}}
			continue
		}
		return l
	}
}

func (p *parser) unary() *Node {
	t := p.peek()
	if t.k == "op" && (t.s == "!" || t.s == "-" || t.s == "*" || t.s == "^") {
		p.next()
		x := p.unary()
		return &Node{Op: "un", Name: t.s, Args: []*Node{x}}
	}
	return p.postfix()
}

func (p *parser) postfix() *Node {
	x := p.primary()
	for {
		switch {
		case p.isOp("."):
			p.next()
			f := p.next()
			if f.k != "id" && f.k != "int" {
				panic("field name expected")
			}
			x = &Node{Op: "field", Name: f.s, Args: []*Node{x}}
		case p.isOp("["):
			p.next()
			if p.isOp(":") {
				p.next()
				var hi *Node
				if !p.isOp("]") {
					hi = p.expr()
				}
				p.expect("]")
				x = &Node{Op: "slice", Args: []*Node{x, nil, hi}}
				continue
			}
			i := p.expr()
			if p.isOp(":") {
				p.next()
				var hi *Node
				if !p.isOp("]") {
					hi = p.expr()
				}
				p.expect("]")
				x = &Node{Op: "slice", Args: []*Node{x, i, hi}}
				continue
			}
			p.expect("]")
			x = &Node{Op: "index", Args: []*Node{x, i}}
		case p.isOp("("):
			p.next()
			var args []*Node
			for !p.isOp(")") {
				args = append(args, p.expr())
				if p.isOp(",") {
					p.next()
				}
			}
			p.expect(")")
			if x.Op == "id" && x.Name == "old" {
				if len(args) != 1 {
					panic("old takes one argument")
				}
				x = &Node{Op: "old", Args: args}
			} else if x.Op == "id" {
				x = &Node{Op: "call", Name: x.Name, Args: args}
			} else if x.Op == "field" && x.Args[0].Op == "id" {
				// qualified spec function pkg.f(...) is not used; treat x.f(args) as method-style call f(x, args)
				x = &Node{Op: "call", Name: x.Name, Args: append([]*Node{x.Args[0]}, args...)}
			} else {
				panic("call of non-identifier")
			}
		default:
			return x
		}
	}
}

func (p *parser) primary() *Node {
	t := p.next()
	switch t.k {
	case "id":
		if t.s == "forall" || t.s == "exists" {
			p.p--
			return p.expr()
		}
		return &Node{Op: "id", Name: t.s}
	case "int":
		return &Node{Op: "int", Name: t.s}
	case "str":
		return &Node{Op: "str", Name: t.s}
	case "raw":
		return &Node{Op: "raw", Name: t.s}
	case "op":
		if t.s == "(" {
			x := p.expr()
			p.expect(")")
			return x
		}
	}
	panic(fmt.Sprintf("unexpected %q", t.s))
}
