#!/usr/bin/env python3
"""Regenerates MANIFEST.json from the table below (kept next to props.json)."""
import json, subprocess

HOOK_COMMITS = subprocess.run(["git", "-C", "/repo", "log", "--format=%H", "--grep=^verif hook:"], capture_output=True, text=True).stdout.split()

CLAIMED = {
 "C19": dict(
  text="Deductive proof, for all 2^32 inputs, that CompactToBig returns sign*mantissa*256^(exp-3) (truncating below 3), that calcWork/CalculateWork return floor(2^256/(target+1)) or 0 for non-positive targets, that work is non-increasing in the target (lemma) and that FastLog2Floor(n) = floor(log2 n) for n>=1 (loop unrolled 5 times with unwinding assertion: complete). Proof level is right because the property is a pure function over a finite but untestable domain.",
  note="Trusted: go/ssa as semantics of the source, SMT solvers, govc; math/big operations modelled as mathematical integer operations; pow2 and bit-vector->Int bridges uninterpreted (proof holds for every interpretation).",
  design="4 C19"),
 "C02": dict(
  text="Deductive proof of the Go side of merkle-root verification for all inputs: three-way verdict of ToMerkleRootConfirmation against the statement's mathematical window (tip < height <= tip+excess, 64-bit widened), one verdict per item in request order (ConvertToMerkleRootsConfirmations, loop invariant), response mapping and overall verdict = worst individual one (mapToMerkleRootsConfirmationsResponses, loop invariants incl. existential witness), convertState severity order.",
  note="Not covered by proof: the SQL lookups sqlVerifyHash / sqlTipOfChainHeight (engine behaviour) and therefore the clause 'verdicts track the chain' below the repository; JSON encoding. Trusted: go/ssa, solvers, govc.",
  design="4 C02"),
 "C12": dict(
  text="Deductive proof over ghost tables WH (webhooks) and HTTP (per-URL effect log): Webhook.Notify sends exactly one POST with exactly {TokenHeader: Token, Content-Type: json}; updateWebhookAfterNotification is the counter/threshold automaton; WebhooksService.Notify (loop invariant over the stored set, Skolem index WHIDX) delivers once to every stored active webhook with M = configured max_tries and leaves inactive/unknown rows untouched; CreateWebhook/refreshWebhook/DeleteWebhook/GetWebhookByURL against the registration rules; L1 WebhooksRepository methods and dto converters proved against the storage-port contracts (behavioural subtyping).",
  note="Assumed (trusted L0): the four webhook SQL statements in database/sql (contracts over WH); net/http delivery; time.Now, fmt.Sprint, io.ReadAll unconstrained; storage calls succeed under ghost nofault. WebhooksRepository.GetAllWebhooks (loop) is assumed via the port contract, not yet proved. Restart persistence rests on SQLite durability.",
  design="4 C12"),
 "C01": dict(
  text="Deductive proof that chainService.Add preserves the header-store invariant Inv over the ghost table HS for every stored tree and every submitted header (clause by clause: I0 genesis, Ist labels/heights, I1 parent link + cumulative work + insertion order, I1o orphan rule, I2a/I2b longest chain closed under parent and unique per height, I3 tip has the greatest cumulative work, earliest among equals, W work = spec_work(bits)), plus lemmas L-prop-1..3 showing Inv is the statement (LONGEST_CHAIN = ancestors of the tip, every other connected header STALE, orphans never counted) and six inductive ancestor lemmas. Duplicates and forbidden hashes leave HS unchanged. Helpers (first, lowestHeightOf, hashes, ignoreBlockHash, createHeader, previousHeader, insert, hasConcurrentHeaderFromLongestChain, stalePartOfChainOf, longestChainFromHeight, switchChainsStates, CreateHeader) each carry their own contract; no-panic obligations included.",
  note="Assumed: the repository.Headers port contracts over HS (their SQL in database/sql is a trusted L0; the L1 glue for AddHeaderToDatabase/GetHeaderByHash/GetHeaderByHeight/GetTip is proved under C03, the list-returning methods and UpdateState are assumed); reads and writes succeed (ghost rok/wok); stored heights < MaxInt32; BlockHasher returns hashOf(source); sequential execution. Induction is at the meta level: each lemma block proves the inductive step.",
  design="4 C01"),
 "C03": dict(
  text="Deductive proof that a stored record's height, work, cumulative work and state label are derived as stated (CreateHeader, createHeader incl. the unknown-parent stub), that Add inserts exactly the submitted source fields and leaves every field of every existing record except the state label unchanged (immutability, no record disappears), and that the row<->domain conversions (ToDbBlockHeader, ToBlockHeader) and the L1 repository methods lose nothing (hex/decimal codecs as inverse spec functions).",
  note="Not covered by proof: hash = double SHA-256 of the 80-byte serialisation (BlockHasher is assumed to return hashOf(source); sha256 and the wire serialiser are outside this check), SQL column types, sub-second timestamp truncation. Trusted: L0 SQL contracts, chainhash String/NewHashFromStr as inverse codecs, math/big.",
  design="4 C03"),
 "C05": dict(
  text="Deductive proof that at every write boundary inside a reorganisation (after each UpdateState) and on every return of Add - including every path on which a storage write fails (ghost wok dropped) - the store is structurally valid (I0, Ist, I1, I1o, I2a, I2b) and every existing record is present and unaltered except its state label; that Add from any structurally valid store (tip rule I3 not required, i.e. also from a post-crash store) succeeds when writes succeed - it is never stuck; and that start-up's genesis insert never modifies stored headers.",
  note="Not covered: that a killed process leaves exactly a committed prefix of transactions on disk (SQLite atomic commit/durability assumed); 'same final state as an uninterrupted run' is argued in DESIGN.md but not discharged as an obligation; read failures are outside the statement (rok assumed); import path see C17.",
  design="4 C05"),
 "C11": dict(
  text="Deductive proof that Add notifies exactly once when and only when it stores a header (ghost NOTIF count unchanged on duplicate, forbidden and failed-store paths), that the event payload equals the stored record's nine fields (HeaderAdded), that Notifier.Notify starts exactly one goroutine per registered channel with the event (ghost SPAWN log, loop invariant) and delivers nothing inline, and that the websocket channel publishes at most once per event on channel 'headers'.",
  note="Assumed: spawned goroutines eventually run and do not interfere (schedules are out of scope); encoding/json and centrifuge delivery; webhook channel see C12.",
  design="4 C11"),
 "C07": dict(
  text="Deductive proof of the containment logic: a hash is treated as forbidden iff it equals one of the network's HeadersToIgnore (ignoreBlockHash, loop invariant); a forbidden submission leaves the store and the notification count unchanged and is answered BlockRejected (Add, shared with C01); the default engine's verifyCheckpointHeight passes the batch flag through off the checkpoint height, sets it on a matching header and disconnects the peer (ghost DISC) with an error on a differing one; findNextHeaderCheckpoint / findNextCheckpoint return exactly the first checkpoint above the given height (pointers into the checkpoint slice modelled as element references, backward loop invariant); sendGetHeadersWithPassedParams issues exactly one getheaders with the given stop hash (ghost GETHDR). SyncManager.handleHeadersMsg (loop invariant over the ghost history ADDS of Chains.Add answers): unknown peer or empty batch - no effect; unrequested headers - disconnect; a BlockRejected answer - ban + disconnect + stop + no request; an accepted header at the checkpoint height with another hash - disconnect + stop + no request; otherwise nobody is disconnected, every header was submitted, and after a longest-chain header exactly one getheaders goes to this peer: towards the next checkpoint after a matching checkpoint header, with the zero stop hash after the last one.",
  note="Assumed: Peer.Disconnect/PushGetHeadersMsg/PeerNotifier.BanPeer effect contracts (ghost counters; sockets are outside), checkpoints sorted ascending and zeroHash never written (requires), Chains.Add seen through its port contract (error classes proved on chainService.Add, whose store preconditions are C01's). Not covered: the convergence clause (C06, not applicable), server.go handleBanPeerMsg (see C18), 'never served by any endpoint' follows from 'never stored' (C04 reads return stored records only).",
  design="4 C07"),
 "C04": dict(
  text="Deductive proof, over the ghost header table HS and for every structurally valid stored tree, of the HeaderService queries: by hash returns the stored record or 404; tip returns a longest-chain record of maximal height; by-height returns only stored records of the mathematical window [height, height+count-1] and every longest-chain record in it; ancestors(hash, ancestor) succeeds only when ancestor is an ancestor (anc, inductive lemmas) and always when it is a proper one; common-ancestor returns an ancestor of every given header strictly below the lowest given height and no higher header qualifies (four loops with invariants, areAllElementsEqual); HS is in no query's frame (reads never modify the store). The L1 repository glue and the trusted SQL reads are checked by the bounded stand-in storelab on real SQLite.",
  note="Assumed: repository.Headers port contracts (SQL is trusted L0; bounded conformance by storelab: quick all trees of <=4 headers, thorough <=5); GetTips' 'every leaf of a stale or orphan branch' is carried by the port contract of GetAllTips only (storelab-checked, not proved); reads succeed (rok); HTTP layer see C16.",
  design="4 C04"),
 "C13": dict(
  text="Deductive proof over the ghost header table HS, for every structurally valid store: LatestHeaderLocator (loop invariant, interior pointers &tip.Hash modelled as field references) returns only stored longest-chain hashes, entry 0 is the tip, heights strictly descend, entry i+1 lies lstep(i) below entry i (1 for the first 11 entries, then doubling, as a bit-vector spec function) clamped at 0, and with successful reads the last entry has height 0; locateHeadersGetHeaders / LocateHeaders return exactly the run of longest-chain headers at heights s+1.. (s = greatest height of a locator entry on the longest chain, 0 if none; ghost out-parameter LOC.start), field by field, ending at the stop hash's height when the stop is a longest-chain header ahead, capped at s+2000 and at the tip, and nothing when the stop lies at or below s (genesis stop: defect found and fixed); the L1 repository methods GetHeadersStartHeight / GetHeadersStopHeight / GetHeadersByHeightRange are proved against the port contracts.",
  note="Assumed: the three SQL queries (trusted L0 contracts; bounded conformance by storelab on real SQLite incl. the un-ORDERed range query on tables inserted parent-first), reads succeed (rok) for the completeness clauses; an unknown or stale stop hash counts as no stop (as the storage reports height 0 for it). Not covered: OnGetHeaders/handleGetHeadersMsg wrappers in transports/p2p (IsCurrent gate, queueing), the wire encoding (C14).",
  design="4 C13"),
 "C08": dict(
  text="Deductive proof, per page and for every structurally valid store with pairwise distinct merkle roots and every batch size >= 0: HeaderRepository.GetMerkleRoots and MerklerootsService.GetMerkleRoots return exactly the longest-chain rows at heights h0+1 .. min(h0+batch, tip) in ascending order (h0 = -1 for the empty key, else the height of the longest-chain header carrying the key), never more than batch, only longest-chain merkle roots, Size/TotalElements as stated; an unknown key is a 404, a key of a header off the longest chain a 409; LastEvaluatedKey is empty exactly when the page ends at the tip, and otherwise designates the longest-chain header of the last row, so the next page starts right above it with strict progress (continuation clause mrNext). The walk claim (every longest-chain block exactly once, ascending) is the induction over pages of these clauses (DESIGN 4 C08). The page query and the key lookup (SQL + Go glue in database/sql) are a trusted L0 contract with bounded conformance on real SQLite (storelab).",
  note="Assumed: L0 contract of HeadersDb.GetMerkleRoots (bounded: all trees of <= 4 (quick) / 5 (thorough) headers x every key x batch 0..n+1), GetTip, reads succeed (rok); no ingestion between the page query and the tip query inside one call (sequential semantics; an interleaved new tip only makes the key non-empty, DESIGN 4 C08); batch-size parsing in the HTTP handler is C16's.",
  design="4 C08"),
 "C09": dict(
  text="Deductive proof of the authentication middleware (parseAuthHeader: only 'Bearer <t>' without spaces passes; getToken: every token-service error becomes 401; ApplyToAPI: with auth enabled either one structured 401 + abort + nothing set, or the token is set and nothing is written; with auth disabled no effect) and of the admin wrapper (validateToken, RequireAdmin and its closure: the wrapped handler is invoked iff the context holds an admin *domains.Token, otherwise one structured error, aborted, stores untouched), plus structural SSA-provenance obligations (no solver): every RegisterAPIEndpoints implementation registers routes only on the group it is given, SetupRoutes passes engine.Group(\"/api/v1\", authentication middlewares...) to each of them, the mutating /access routes are wrapped by RequireAdmin(handler, cfg.UseAuth), and the unauthenticated registrations are exactly status, swagger, pprof, metrics and the websocket upgrade.",
  note="Assumed: gin runs group middleware before handlers and AbortWithStatusJSON stops the chain; strings.Split contract; the route table as gin materialises it at run time is not observed. The structural obligations are syntactic facts about the SSA, enumerated from the code on every run.",
  design="4 C09"),
 "C10": dict(
  text="Deductive proof over the ghost token set TK and the ghost constant ADMIN: TokenService.GetToken accepts the admin token independently of TK and any other token iff it is in TK (non-admin); GenerateToken adds exactly the returned value; DeleteToken removes exactly the given value (other tokens unaffected, admin cannot be disabled); the websocket connect handshake refuses exactly when authentication is required and the token is neither admin nor in TK.",
  note="Assumed: repository.Tokens port contracts over TK (token SQL is a trusted L0; persistence across restarts rests on SQLite durability); pairwise distinctness of issued tokens rests on uniuri randomness (not covered); reads succeed (rok).",
  design="4 C10"),
 "C16": dict(
  text="Deductive proof, per handler (headers 5, tips 2, merkleroots 2, webhook 3, access 3, network 2) and for ErrorResponse/AbortWithErrorResponse/mapAndLog, over the ghost effect log RESP of gin.Context: a fresh request is answered by exactly one JSON document whose status is 200, or 4xx with a ResponseError{code,message} body, or 5xx only when storage failed; no handler panics on any parameter, query or body value; the header store is not modified (HS outside every handler's frame). Error classes of the service methods are port contracts (okErr).",
  note="Assumed: gin Context method semantics (read from gin v1.10.0: Bind* writes 400 and aborts on error, JSON writes status+body), strconv/json, the service ports' error classes (proved for the token service; header/merkleroot/webhook services' error classes are assumed here and partly proved under C04/C08/C12); the status endpoint (empty 200) is outside the claim; gin recovery middleware is not modelled.",
  design="4 C16"),
 "C17": dict(
  text="Deductive proof of the import side over ghost models of the file (CSV), of the rows computed (IMP) and of the rows handed to the database (INS): parseRecordToBlockHeadersSource refuses a row unless it has five columns with numerals in range and parsable hashes and otherwise yields exactly the parsed fields; calculateFields / prepareRecord derive hash = hashOf(fields, previous row's hash), height = row index, work = spec_work(bits), cumulative work = previous + work, state LONGEST_CHAIN; insertHeaders (loop invariant) hands exactly these rows, in order, to one CreateMultiple transaction and carries previous hash and cumulative work across the 500-row batch boundary; database.importHeaders never touches a database that already holds headers and leaves an empty table behind when the import or its validation fails (defect found and fixed). The export (SQL, strftime, CSV, gzip), the batch loop of sqLiteAdapter.importHeaders, validateDbConsistency and the round trip as a whole are checked by the bounded stand-in importlab on real SQLite files.",
  note="Bounded (importlab): chains of 1, 2, 3, 7, 501 (thorough: 1003) headers with stale siblings and an orphan, extreme versions/nonces/timestamps; all single-field corruptions, missing/extra column, dropped row, wrong checkpoint on a 4-row export, each with a second start; genesis-only target. Assumed: strconv/time/csv.Reader/errors.Is contracts, (*big.Int).SetString(\"\") leaves 0, CreateMultiple is one all-or-nothing transaction, DELETE FROM headers empties the table (removeRefusedImport), Count/Height SQL; a hash string accepted by NewHashFromStr that is not 64 hex digits (e.g. a shortened merkle root) is accepted by the import - noted, not claimed.",
  design="4 C17"),
 "C18": dict(
  text="Deductive proof of the admission bookkeeping of the p2p server, one handler call at a time over the real peerState maps (map contents modelled as dom/val/len families): handleAddPeerMsg admits a peer exactly when the server is not shutting down, the address parses, the host is not under a running ban (clock value read by the handler, ghost CLK), the host has fewer than MaxPeersPerIP counted connections and fewer than MaxPeers peers are known; an admitted peer enters exactly one map, Count grows by at most one and stays <= 125, the host counter grows by exactly one (persistent peers are not counted) and stays <= 5, a refused peer is disconnected and nothing is counted, an expired ban entry is dropped and other hosts' entries are untouched; handleBanPeerMsg bans exactly the peer's host until now + BanDuration; handleDonePeerMsg removes a known peer from its map and decrements its host and group counters exactly once, and changes no counter for an unknown peer. Limits, ban window and 'counters return to zero' follow by induction over handler calls from these per-call deltas (DESIGN 4 C18).",
  note="Not covered (outside the verified subset: goroutines, select, channels): the connection manager's target-keeping (connmgr.connHandler / handleFailedConn / NewConnReq) - seed C18-reconnect-counts-pending is missed; peerHandler's dispatch loop. Assumed: net.SplitHostPort, time.Now/Before/Add, atomic.LoadInt32, addrmgr.GroupKey as uninterpreted functions; the three peer maps and the two counter maps are distinct objects (requires); peers reach handleAddPeerMsg only after version negotiation (versionKnown), so the group counter decrement in handleDonePeerMsg always applies.",
  design="4 C18"),
 "C20": dict(
  text="Deductive proof that DbConfig.Validate / AppConfig.Validate accept a configuration exactly when it selects a supported engine (sqlite with a non-empty path, or postgres with host, port, user and database name) and, if a prepared database is requested, names an existing file (ghost FS.exists behind os.Stat), and that GetDefaultAppConfig returns all eight sections non-nil with a valid default database section; plus structural obligations (types and SSA, no solver) for the precedence mechanism: every field on the way to each of the 34 leaf keys of AppConfig carries a plain lower-case mapstructure name without options (omitempty/squash/'-' would drop a zero default from the registered defaults and the key would stop honouring its BHS_ variable), key names are unique per section, SetDefaults registers mapstructure.Decode(GetDefaultAppConfig()) key by key through viper.SetDefault and then calls envConfig, envConfig sets prefix bhs, replaces '.' by '_' and calls AutomaticEnv, and Load reads the selected file before viper.Unmarshal.",
  note="Assumed, not proved: viper's resolution order (explicit Set > env > config file > default) and mapstructure's decoding - library behaviour behind reflection, outside the verified subset; that the registered defaults equal the documented ones (config.example.yaml differs from defaults.go for logging.origin and logging.instance_name - documentation, not checked); os.Stat. The structural obligations are syntactic facts about the type and the SSA, enumerated from the code on every run (new keys are included).",
  design="4 C20"),
}

NOT_APPLICABLE = {
 "C06": "liveness over message interleavings of goroutines, sockets and timers: no contract on a single call expresses eventual convergence; the generator rejects select/channels (DESIGN 5)",
 "C15": "data-race freedom and linearisability under arbitrary schedules: the verifier checks sequential code and has no thread/permission model (DESIGN 5)",
}

PENDING = "not claimed (yet): no contract-based check for this property is registered in this revision; see DESIGN.md 4 for the plan"

def main():
    props = [json.loads(l) for l in open("properties.jsonl")]
    checks, na = [], []
    for p in props:
        i = p["id"]
        if i in CLAIMED:
            c = CLAIMED[i]
            checks.append({
              "property_id": i,
              "quick_cmd": f"./check {i} quick",
              "thorough_cmd": f"./check {i} thorough",
              "evidence_file": f"/verif/evidence/{i}.json",
              "replay_cmd_template": "bin/govc replay {path}",
              "engine": "govc",
              "level_claimed": {"category": "proof", "text": c["text"], "design_ref": c["design"]},
              "level_note": c["note"],
              "technique": c.get("technique", "contract-based deductive verification: weakest-precondition style VCs generated from go/ssa of the real functions against //@ contracts, discharged by z3/cvc5"),
            })
        else:
            na.append({"property_id": i, "reason": NOT_APPLICABLE.get(i, PENDING)})
    m = {
      "version": 1,
      "setup_cmd": "cd /verif/tools && GOFLAGS=-mod=mod GOPROXY=off go build -o ../bin/govc ./cmd/govc && cd /repo && GOFLAGS=-mod=mod GOPROXY=off go build ./... ",
      "hooks": {"guard": "verif", "enable": "contracts are //@ comments in <pkg>/contracts_verif.go files with //go:build verif; govc loads the packages with -tags=verif and reads the comments",
                "baseline_off_cmd": json.load(open("/root/.vp/BASELINE.json"))["cmd"], "source_commits": HOOK_COMMITS, "add_only": True},
      "engines": [{"name": "govc", "path": "/verif/tools/cmd/govc", "serves_properties": sorted(CLAIMED), "kind_free_text": "VC generator over go/ssa (NaiveForm) + contract language + solver portfolio (z3 5.1.0, z3 4.8.12, cvc5 1.0.3) + counterexample replay on the real code"}],
      "checks": checks,
      "not_applicable": na,
      "notes": "See DESIGN.md. Contracts live in /repo/**/contracts_verif.go (guarded by build tag verif) and /verif/spec/*.spec (theories, externals, lemmas).",
    }
    json.dump(m, open("MANIFEST.json", "w"), indent=1)
    print("checks:", [c["property_id"] for c in checks])

main()
