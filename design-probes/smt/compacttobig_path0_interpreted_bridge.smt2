
(declare-fun pow2 (Int) Int)
(assert (forall ((n Int)) (! (> (pow2 n) 0) :pattern ((pow2 n)))))
(declare-const compact (_ BitVec 32))
; post target
(push)
(assert (and (bvule ((_ zero_extend 32) (ite (bvuge (_ bv24 64) (_ bv32 64)) (_ bv0 32) (bvlshr compact ((_ extract 31 0) (_ bv24 64))))) (_ bv3 64)) (not (= (bvand compact (_ bv8388608 32)) (_ bv0 32))) true))
(assert (not (= (- (sbv_to_int ((_ zero_extend 32) (ite (bvuge (bvmul (_ bv8 64) (bvsub (_ bv3 64) ((_ zero_extend 32) (ite (bvuge (_ bv24 64) (_ bv32 64)) (_ bv0 32) (bvlshr compact ((_ extract 31 0) (_ bv24 64))))))) (_ bv32 64)) (_ bv0 32) (bvlshr (bvand compact (_ bv8388607 32)) ((_ extract 31 0) (bvmul (_ bv8 64) (bvsub (_ bv3 64) ((_ zero_extend 32) (ite (bvuge (_ bv24 64) (_ bv32 64)) (_ bv0 32) (bvlshr compact ((_ extract 31 0) (_ bv24 64))))))))))))) (let ((m ((_ zero_extend 9) ((_ extract 22 0) compact))) (e ((_ extract 31 24) compact)) (neg (= ((_ extract 23 23) compact) #b1)))
 (let ((mag (ite (bvule e #x03)
      (ubv_to_int (ite (= e #x03) m (ite (= e #x02) ((_ zero_extend 8) ((_ extract 31 8) m)) (ite (= e #x01) ((_ zero_extend 16) ((_ extract 31 16) m)) (_ bv0 32)))))
      (* (ubv_to_int m) (pow2 (ubv_to_int (bvsub (bvmul ((_ zero_extend 56) e) (_ bv8 64)) (_ bv24 64))))))))
  (ite neg (- mag) mag))))))
(check-sat)
(pop)
