; CompactToBig, branch exponent<=3 : code value vs Int-level spec
(declare-const compact (_ BitVec 32))
(define-fun mant () (_ BitVec 32) (bvand compact #x007fffff))
(define-fun e64 () (_ BitVec 64) ((_ zero_extend 32) (bvlshr compact #x00000018)))
(define-fun sh () (_ BitVec 64) (bvmul #x0000000000000008 (bvsub #x0000000000000003 e64)))
; Go: shift count uint64, x uint32: if count>=32 result 0
(define-fun shifted () (_ BitVec 32) (ite (bvuge sh #x0000000000000020) #x00000000 (bvlshr mant ((_ extract 31 0) sh))))
(define-fun codeval () Int (bv2nat shifted))
; spec in Int
(define-fun c () Int (bv2nat compact))
(define-fun smant () Int (mod c 8388608))
(define-fun sexp () Int (div c 16777216))
(define-fun p256 ((k Int)) Int (ite (= k 0) 1 (ite (= k 1) 256 (ite (= k 2) 65536 16777216))))
(define-fun specval () Int (div smant (p256 (- 3 sexp))))
(assert (bvule e64 #x0000000000000003))
(assert (not (= codeval specval)))
(check-sat)
