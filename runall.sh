#!/bin/sh
# runs the quick check of every claimed property; prints one line each
cd "$(dirname "$0")"
for P in $(python3 -c "import json;print(' '.join(c['property_id'] for c in json.load(open('MANIFEST.json'))['checks']))") "$@"; do
  ./check $P quick 2>&1 | grep -E "^property|^VIOLATION|^KNOWN" | head -3
done
