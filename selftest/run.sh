#!/bin/sh
# usage: selftest/run.sh [PROP ...]   — applies every mutant patch of the property to a scratch copy
# of /repo and expects the property's quick check to report a VIOLATION. Prints one line per mutant.
cd "$(dirname "$0")/.."
PROPS="${*:-$(ls selftest/mutants)}"
fail=0
for P in $PROPS; do
  for M in selftest/mutants/$P/*.patch; do
    [ -f "$M" ] || continue
    D=$(mktemp -d /tmp/vmut.XXXXXX)
    rsync -a --exclude .git /repo/ "$D/"
    if ! (cd "$D" && patch -p1 -s < "/verif/$M") >/dev/null 2>&1; then
      echo "SELFTEST mutant=$P/$(basename $M .patch) PATCH-FAILED"; fail=1; rm -rf "$D"; continue
    fi
    OUT=$(VERIF_REPO="$D" VERIF_SELFTEST=1 VERIF_WORK_SUFFIX=".$(basename $M .patch)" ./check "$P" quick 2>&1); RC=$?
    V=$(echo "$OUT" | grep '^VIOLATION' | head -1 | sed 's/.*obligation=//')
    if [ $RC -eq 1 ] && [ -n "$V" ]; then
      echo "SELFTEST mutant=$P/$(basename $M .patch) detected=$V"
    else
      echo "SELFTEST mutant=$P/$(basename $M .patch) MISSED (rc=$RC)"; fail=1
    fi
    rm -rf "$D" "work/$P.$(basename $M .patch)"
  done
done
exit $fail
