#!/bin/sh
# usage: selftest/sample.sh PROP SEED N — applies N mutants of PROP (chosen by SEED) to scratch copies of
# /repo and reports, as JSON lines, whether the property's quick check detects each. Used by the
# thorough tier: a missed mutant is recorded in the evidence, it is not a property violation.
cd "$(dirname "$0")/.."
P=$1; SEED=${2:-0}; N=${3:-3}
LIST=$(ls selftest/mutants/$P/*.patch 2>/dev/null)
[ -z "$LIST" ] && exit 0
CNT=$(echo "$LIST" | wc -l)
i=0
while [ $i -lt $N ] && [ $i -lt $CNT ]; do
  IDX=$(( (SEED * 7 + i * (CNT / N + 1)) % CNT + 1 ))
  M=$(echo "$LIST" | sed -n "${IDX}p")
  NAME=$(basename "$M" .patch)
  D=$(mktemp -d /tmp/vmut.XXXXXX)
  rsync -a --exclude .git "${VERIF_REPO:-/repo}/" "$D/"
  if (cd "$D" && patch -p1 -s < "/verif/$M") >/dev/null 2>&1; then
    OUT=$(VERIF_REPO="$D" VERIF_SELFTEST=1 VERIF_WORK_SUFFIX=".smp$i" ./check "$P" quick 2>&1); RC=$?
    V=$(echo "$OUT" | grep '^VIOLATION' | head -1 | sed 's/.*obligation=//; s/ no-failing-input-found//' | tr -d '"\\')
    if [ $RC -eq 1 ] && [ -n "$V" ]; then
      echo "{\"mutant\": \"$P/$NAME\", \"detected\": true, \"by\": \"$V\"}"
    else
      echo "{\"mutant\": \"$P/$NAME\", \"detected\": false, \"by\": \"\"}"
    fi
  else
    echo "{\"mutant\": \"$P/$NAME\", \"detected\": false, \"by\": \"patch does not apply to the current tree\"}"
  fi
  rm -rf "$D" "work/$P.smp$i"
  i=$((i + 1))
done
