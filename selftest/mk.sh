#!/bin/sh
# usage: selftest/mk.sh PROP NAME FILE SED_EXPR   (FILE relative to /repo)
P=$1; N=$2; F=$3; E=$4
mkdir -p /verif/selftest/mutants/$P
T=$(mktemp -d /tmp/vmk.XXXXXX)
mkdir -p $T/a/$(dirname $F) $T/b/$(dirname $F)
cp /repo/$F $T/a/$F; cp /repo/$F $T/b/$F
sed -i "$E" $T/b/$F
if cmp -s $T/a/$F $T/b/$F; then echo "mk.sh: no change for $P/$N"; rm -rf $T; exit 1; fi
(cd $T && diff -u a/$F b/$F > /verif/selftest/mutants/$P/$N.patch)
rm -rf $T
